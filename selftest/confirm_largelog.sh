#!/bin/bash
# For every seeded change whose meta.json says large_log_test is pending: apply it in a scratch worktree and run
# TestSequenceLargeLog alone (sequentially: the test has an internal deadline that a busy machine misses).
export PATH=/root/go/pkg/mod/golang.org/toolchain@v0.0.1-go1.25.0.linux-amd64/bin:$PATH GOTOOLCHAIN=local GOFLAGS=-mod=readonly GOPROXY=off GOSUMDB=off
for d in /verif/seeded/*/; do
  id=$(basename $d)
  grep -q '"large_log_test": "pending' $d/meta.json || continue
  wt=/tmp/cl-$id
  git -C /repo worktree remove --force $wt >/dev/null 2>&1
  git -C /repo worktree add --detach $wt HEAD >/dev/null 2>&1 || continue
  (cd $wt && (git apply --whitespace=nowarn $d/patch.diff 2>/dev/null || patch -s -p1 --fuzz=3 < $d/patch.diff))
  out=$( (cd $wt && timeout 900 go test -vet=off -count=1 -timeout 14m -run '^TestSequenceLargeLog$' ./internal/ctlog/) 2>&1 | tail -3 | tr '\n' ' ')
  if echo "$out" | grep -q "ok  "; then r=pass; else r="fail: $(echo $out | cut -c1-200)"; fi
  python3 - "$d/meta.json" "$r" <<'PY'
import json,sys
p,r=sys.argv[1],sys.argv[2]
m=json.load(open(p)); m['confirmed']['large_log_test']=r
if r!='pass': m['confirmed']['kept']=False
json.dump(m,open(p,'w'),indent=1)
PY
  echo "$id large_log_test=$r"
  git -C /repo worktree remove --force $wt >/dev/null 2>&1; rm -rf $wt
done
