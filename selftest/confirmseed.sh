#!/bin/bash
# usage: confirmseed.sh <seed dir (patch.diff, demo_test.go, meta.json)> <id e.g. C01a>
# Confirms a seeded change in a scratch worktree of /repo: (1) the demonstration passes on the unchanged tree,
# (2) the change applies and the module builds, (3) the demonstration fails with the change, (4) the existing tests of
# the touched packages still pass with the change. Writes /verif/seeded/<id>/{patch.diff,demo_test.go,meta.json}.
set -u
d=$1; id=$2
export PATH=/root/go/pkg/mod/golang.org/toolchain@v0.0.1-go1.25.0.linux-amd64/bin:$PATH GOTOOLCHAIN=local
wt=/tmp/cw-$id
out=/verif/seeded/$id
log=/tmp/cw-$id.log
: > $log
git -C /repo worktree remove --force $wt >/dev/null 2>&1
git -C /repo worktree add --detach $wt HEAD >>$log 2>&1 || { echo "$id WORKTREE-FAILED"; exit 2; }
cleanup() { git -C /repo worktree remove --force $wt >/dev/null 2>&1; rm -rf $wt; }
trap cleanup EXIT
meta() { python3 -c "import json,sys;m=json.load(open('$d/meta.json'));v=m.get('$1','');print(v if isinstance(v,str) else ' '.join(v))"; }
demodir=$(meta demo_dir); demorun=$(meta demo_run); files=$(meta files_changed)
[ -z "$demodir" ] && demodir=.
cd $wt
cp $d/demo_test.go $wt/$demodir/zz_seed_demo_test.go
export GOFLAGS=-mod=readonly GOPROXY=off GOSUMDB=off
base=$( (timeout 900 bash -c "$demorun") 2>&1 | tail -5 ); echo "== demo on unchanged tree: $base" >>$log
echo "$base" | grep -q "^ok\|PASS" && r_base=pass || r_base=fail
git apply --whitespace=nowarn $d/patch.diff >>$log 2>&1 || patch -s -p1 --fuzz=3 < $d/patch.diff >>$log 2>&1 || { echo "$id PATCH-FAILED"; exit 3; }
go build ./... >>$log 2>&1 && r_build=ok || r_build=fail
go vet $(for f in $files; do echo ./$(dirname $f); done | sort -u) >>$log 2>&1 && r_vet=ok || r_vet=fail
withp=$( (timeout 900 bash -c "$demorun") 2>&1 | tail -8 ); echo "== demo with change: $withp" >>$log
echo "$withp" | grep -q "FAIL" && r_demo=fail || r_demo=pass
rm -f $wt/$demodir/zz_seed_demo_test.go
pkgs=$(for f in $files; do echo ./$(dirname $f)/...; done | sort -u | tr '\n' ' ')
# TestSequenceLargeLog (about 3 min alone, fails its internal deadline when the machine is busy) is run separately and
# sequentially by confirm_largelog.sh for the changes that touch internal/ctlog
suite=$( (timeout 2400 go test -vet=off -count=1 -timeout 30m -skip '^TestSequenceLargeLog$' $pkgs) 2>&1 | grep -E "^(ok|FAIL|---|panic)" | head -30 ); echo "== existing tests of $pkgs with change: $suite" >>$log
fails=$(echo "$suite" | grep -E "^--- FAIL" | sed 's/--- FAIL: //; s/ .*//' | sort -u | tr '\n' ' ')
# load-sensitive tests (they also fail on the unchanged tree when the machine is busy): re-run them alone once
if echo "$fails" | grep -qE "TestScripts|TestSequenceLargeLog"; then
  for attempt in 1 2 3; do
    re=$( (timeout 1200 go test -vet=off -count=1 -p 1 -timeout 15m -run '^TestScripts$' $pkgs) 2>&1 | grep -E "^(ok|FAIL|---)" | head -20 ); echo "== re-run $attempt of load-sensitive tests alone: $re" >>$log
    refails=$(echo "$re" | grep -E "^--- FAIL" | sed 's/--- FAIL: //; s/ .*//' | sort -u | tr '\n' ' ')
    [ -z "$refails" ] && break
    sleep 20
  done
  fails=$( (echo "$fails" | tr ' ' '\n' | grep -vE "^(TestScripts|TestSequenceLargeLog)$"; echo "$refails" | tr ' ' '\n') | grep -v '^$' | sort -u | tr '\n' ' ')
fi
mkdir -p $out
cp $d/patch.diff $out/patch.diff; cp $d/demo_test.go $out/demo_test.go
python3 - "$d/meta.json" "$out/meta.json" "$id" "$r_base" "$r_build" "$r_vet" "$r_demo" "$fails" "$demorun" "$pkgs" <<'PY'
import json,sys
src,dst,id,rb,rbuild,rvet,rdemo,fails,demorun,pkgs=sys.argv[1:11]
m=json.load(open(src))
known={'TestCCADBRoots'}  # needs the network (fails on the unchanged tree in this sandbox)
unexpected=[f for f in fails.split() if f.split('/')[0] not in known]
m['id']=id
m['breaks_property']=m.get('property')
m['confirmed']={
 'how':'scratch git worktree of /repo HEAD under /tmp (removed afterwards); demo copied in as zz_seed_demo_test.go',
 'demo_cmd':demorun,
 'demo_on_unchanged_tree':rb,'builds_with_change':rbuild,'go_vet_touched_packages':rvet,'demo_with_change':rdemo,
 'existing_tests_cmd':"go test -vet=off -count=1 -timeout 30m -skip '^TestSequenceLargeLog$' "+pkgs+" (TestSequenceLargeLog: see large_log_test)",
 'large_log_test':'pending (run alone by selftest/confirm_largelog.sh)' if ('internal/ctlog' in pkgs or pkgs.strip()=='././...') else 'not applicable (internal/ctlog not touched)',
 'existing_tests_failing_with_change':fails.split(),
 'existing_tests_failures_not_attributable_to_environment':unexpected,
 'kept': rb=='pass' and rbuild=='ok' and rdemo=='fail' and not unexpected,
}
json.dump(m,open(dst,'w'),indent=1)
print(id,'base=%s build=%s vet=%s demo_with_change=%s suite_fails=%s kept=%s'%(rb,rbuild,rvet,rdemo,fails or '-',m['confirmed']['kept']))
PY
