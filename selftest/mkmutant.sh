#!/bin/bash
# usage: mkmutant.sh <name> <file-relative-to-repo> <python-regex-or-literal old> <new>   (literal replacement, first occurrence)
# writes /verif/selftest/mutants/<name>.patch
set -e
name=$1; file=$2; old=$3; new=$4
tmp=$(mktemp -d /dev/shm/mk.XXXX)
mkdir -p $tmp/a/$(dirname $file) $tmp/b/$(dirname $file)
cp /repo/$file $tmp/a/$file
python3 - "$tmp/a/$file" "$tmp/b/$file" "$old" "$new" <<'PY'
import sys
src=open(sys.argv[1]).read()
old,new=sys.argv[3],sys.argv[4]
if old not in src:
    print("pattern not found:",old); sys.exit(1)
open(sys.argv[2],'w').write(src.replace(old,new,1))
PY
(cd $tmp && diff -u a/$file b/$file > /verif/selftest/mutants/$name.patch || true)
rm -rf $tmp
test -s /verif/selftest/mutants/$name.patch && echo "wrote $name"
