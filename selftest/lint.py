#!/usr/bin/env python3
# Contract lint: every property tag on a clause must also be in the `props` list of its function, otherwise the check of
# that property never selects the function and the clause is never run under it (this happened: sequencePool carried
# [C07] and [C11] clauses while its props lacked C07 and C11). Exit 1 on any finding.
import re, glob, sys
bad = 0
for f in sorted(glob.glob('/repo/**/contracts_verif.go', recursive=True)):
    cur, props = None, set()
    for ln, l in enumerate(open(f), 1):
        m = re.match(r'//@ func (\S+)(.*)$', l)
        if m:
            cur = m.group(1)
            pm = re.search(r'props (.*)$', m.group(2))
            props = set(pm.group(1).split()) if pm else set()
            continue
        if l.startswith('//@ ') and not l.startswith('//@   '):
            cur = None
        if cur:
            for t in re.findall(r'\[((?:C\d\d,?)+)\]', l):
                for c in t.split(','):
                    if c not in props:
                        print(f"{f}:{ln}: {cur}: clause tag {c} is not in the function's props {sorted(props)}")
                        bad += 1
sys.exit(1 if bad else 0)
