#!/bin/bash
# usage: runmutant.sh <patch> <prop> [extra govc args]  -> prints CAUGHT/MISSED and the violated obligations
patch=$1; prop=$2; shift 2
scratch=$(mktemp -d /dev/shm/mut.XXXX)
trap 'rm -rf $scratch' EXIT
rsync -a --exclude .git ${REPO_SRC:-/repo}/ $scratch/
(cd $scratch && patch -s -p1 < $patch) || { echo "PATCH-FAILED $patch"; exit 3; }
out=$(${GOVC_BIN:-/verif/bin/govc} -specs ${GOVC_SPECS:-/verif/specs} -repo $scratch -prop "$prop" -replays $scratch/replays -known /nonexistent "$@" 2>&1)
rc=$?
viol=$(echo "$out" | grep -c '^VIOLATION')
if [ $rc -eq 1 ]; then echo "CAUGHT $(basename $patch) prop=$prop violations=$viol: $(echo "$out" | grep '^VIOLATION' | sed 's/.*obligation=//' | tr '\n' ' ' | cut -c1-300)";
elif [ $rc -eq 0 ]; then echo "MISSED $(basename $patch) prop=$prop"; 
else echo "ERROR($rc) $(basename $patch) prop=$prop: $(echo "$out" | tail -3 | tr '\n' ' ' | cut -c1-400)"; fi
