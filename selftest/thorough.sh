#!/bin/bash
# thorough tier, second half: the property's slice of the must-fail corpus (hand-written mutants, canaries that revert the
# two repaired defects, and the confirmed seeded changes) is applied to scratch copies of /repo and must be reported as a
# violation by the same check. A MISSED entry means the machinery lost strength: exit 2 (engine error), never a VIOLATION.
cd "$(dirname "$0")"
id=$1
out=$(GOVC_NORETRY=1 PAR=${PAR:-6} ./all.sh "$id" 2>&1)
caught=$(echo "$out" | grep -c '^CAUGHT')
# seeded changes listed in known-misses.txt are documented limits of the technique (DESIGN.md section 0.8): they are
# reported, not counted as a loss of strength
known=$(cut -d' ' -f1 known-misses.txt | tr '\n' '|' | sed 's/|$//')
missed=$(echo "$out" | grep '^MISSED' | grep -vcE "/seeded/($known) ")
echo "$out" | grep '^MISSED' | grep -E "/seeded/($known) " | sed 's/^MISSED/KNOWN-MISS/' >&2
errs=$(echo "$out" | grep -c '^ERROR\|^PATCH-FAILED')
echo "govc selftest $id: must-fail corpus: $caught caught, $missed missed, $errs could not be applied/built" >&2
echo "$out" | grep -v '^CAUGHT' >&2
ev=../evidence/$id.json
if [ -f "$ev" ]; then
  tmp=$(mktemp); jq --argjson c "$caught" --argjson m "$missed" --argjson e "$errs" --arg detail "$(echo "$out" | cut -c1-160)" \
    '.coverage.must_fail_corpus = {caught:$c, missed:$m, not_applicable:$e, detail:($detail|split("\n"))}' "$ev" > $tmp && mv $tmp "$ev"
fi
[ "$missed" -eq 0 ] || { echo "SELFTEST-MISSED property=$id" >&2; exit 2; }
exit 0
