#!/bin/bash
# usage: runseed.sh <seed dir containing patch.diff> <prop> [govc args]
d=$(cd "$1" && pwd); prop=$2; shift 2
scratch=$(mktemp -d /dev/shm/seed.XXXX)
trap 'rm -rf $scratch' EXIT
rsync -a --exclude .git ${REPO_SRC:-/repo}/ $scratch/
(cd $scratch && git init -q . 2>/dev/null; git -C $scratch apply --whitespace=nowarn $d/patch.diff 2>/dev/null || (cd $scratch && patch -s -p1 --fuzz=3 < $d/patch.diff)) || { echo "PATCH-FAILED $d"; exit 3; }
out=$(${GOVC_BIN:-/verif/bin/govc} -specs ${GOVC_SPECS:-/verif/specs} -repo $scratch -prop "$prop" -replays $scratch/replays -known /nonexistent "$@" 2>&1)
rc=$?
if [ $rc -eq 1 ]; then echo "CAUGHT $d prop=$prop: $(echo "$out" | grep '^VIOLATION' | sed 's/.*obligation=//' | tr '\n' ' ' | cut -c1-400)";
elif [ $rc -eq 0 ]; then echo "MISSED $d prop=$prop"; 
else echo "ERROR($rc) $d prop=$prop: $(echo "$out" | tail -3 | tr '\n' ' ' | cut -c1-400)"; fi
