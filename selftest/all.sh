#!/bin/bash
# Runs every hand-written mutant and every confirmed seeded change against its property; prints CAUGHT/MISSED.
cd "$(dirname "$0")"
only=${1:-}
( for p in mutants/*.patch; do b=$(basename $p); prop=${b%%-*}; [ -n "$only" ] && [ "$prop" != "$only" ] && continue; echo "./runmutant.sh $PWD/$p $prop"; done
  for d in ../seeded/*/; do [ -f $d/patch.diff ] || continue; prop=$(basename $d | cut -c1-3); [ -n "$only" ] && [ "$prop" != "$only" ] && continue; echo "./runseed.sh $d $prop"; done ) | xargs -P ${PAR:-4} -I{} sh -c "{}" 2>&1 | stdbuf -oL cut -c1-220
