#!/bin/bash
# Must-stay-quiet corpus: 24 behaviour-preserving refactors written by sub-agents (selftest/refactors/<id>/{patch.diff,note.txt}).
# Each is applied to a scratch copy of /repo and the checks of the properties whose contracts live in the touched package
# are run; any non-zero exit is a false alarm. usage: refactors.sh [id-prefix]
cd "$(dirname "$0")"
props_for() {
  case "$1" in
    R1-*) echo C01 C02 C03 C04 C06 C07 C08 C09 C11 C17;;
    R2-*) echo C14 C15 C16;;
    R3-*) echo C08 C10 C11 C12 C20;;
    R4-1) echo C13 C03;; R4-2) echo C05 C01;; R4-3) echo C05;; R4-4) echo C13;; R4-5) echo C18;; R4-6) echo C20 C19;;
  esac
}
for d in refactors/${1:-}*/; do id=$(basename $d); echo "./runrefactor.sh $PWD/$d/patch.diff $(props_for $id)"; done | xargs -P ${PAR:-3} -I{} sh -c "{}" 2>&1 | sed 's|/verif/selftest/refactors/||'
