#!/bin/bash
# usage: ingest.sh <PROP>   -- confirms /tmp/seedwt/<PROP>/seed_{a,b} into /verif/seeded/<PROP>{a,b} and runs the check on each
cd "$(dirname "$0")"
p=$1
# optional second and third argument: the suffixes to store seed_a / seed_b under (round 2: c d)
sa=${2:-a}; sb=${3:-b}
for pair in a:$sa b:$sb; do
  v=${pair%%:*}; w=${pair##*:}
  d=/tmp/seedwt/$p/seed_$v
  [ -f $d/patch.diff ] || { echo "$p$w: no patch"; continue; }
  ./confirmseed.sh $d $p$w
  if grep -q '"kept": true' ../seeded/$p$w/meta.json 2>/dev/null; then ./runseed.sh ../seeded/$p$w $p; else echo "$p$w not kept (see /tmp/cw-$p$w.log)"; fi
done
