#!/bin/bash
# usage: ingest.sh <PROP>   -- confirms /tmp/seedwt/<PROP>/seed_{a,b} into /verif/seeded/<PROP>{a,b} and runs the check on each
cd "$(dirname "$0")"
p=$1
for v in a b; do
  d=/tmp/seedwt/$p/seed_$v
  [ -f $d/patch.diff ] || { echo "$p$v: no patch"; continue; }
  ./confirmseed.sh $d $p$v
  if grep -q '"kept": true' ../seeded/$p$v/meta.json 2>/dev/null; then ./runseed.sh ../seeded/$p$v $p; else echo "$p$v not kept (see /tmp/cw-$p$v.log)"; fi
done
