#!/bin/bash
# usage: runrefactor.sh <patch.diff> <prop> [<prop>...]
# Applies a behaviour-preserving change to a scratch copy of /repo and runs the given checks: any non-zero exit is a false alarm.
patch=$1; shift
scratch=$(mktemp -d /dev/shm/ref.XXXX)
trap 'rm -rf $scratch' EXIT
rsync -a --exclude .git ${REPO_SRC:-/repo}/ $scratch/
(cd $scratch && git init -q . 2>/dev/null; git -C $scratch apply --whitespace=nowarn $patch 2>/dev/null || patch -s -p1 --fuzz=3 < $patch) || { echo "PATCH-FAILED $patch"; exit 3; }
for prop in "$@"; do
  out=$(${GOVC_BIN:-/verif/bin/govc} -specs ${GOVC_SPECS:-/verif/specs} -repo $scratch -baseline /repo -prop "$prop" -replays $scratch/replays -known /nonexistent 2>&1)
  rc=$?
  if [ $rc -eq 0 ]; then echo "QUIET $patch prop=$prop";
  else echo "ALARM($rc) $patch prop=$prop: $(echo "$out" | grep '^VIOLATION\|ENGINE-ERROR' | sed 's/.*obligation=//' | tr '\n' ' ' | cut -c1-600)"; fi
done
