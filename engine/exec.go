package main

import (
	"fmt"
	"go/ast"
	"go/token"
	"go/types"
	"os"
	"regexp"
	"sort"
	"strconv"
	"strings"

	"golang.org/x/tools/go/ssa"
)

// ---------------------------------------------------------------------------
// SMT term helpers

func sAnd(xs ...string) string {
	var ys []string
	for _, x := range xs {
		if x == "true" || x == "" {
			continue
		}
		if x == "false" {
			return "false"
		}
		ys = append(ys, x)
	}
	switch len(ys) {
	case 0:
		return "true"
	case 1:
		return ys[0]
	}
	return "(and " + strings.Join(ys, " ") + ")"
}

func sOr(xs ...string) string {
	var ys []string
	for _, x := range xs {
		if x == "false" || x == "" {
			continue
		}
		if x == "true" {
			return "true"
		}
		ys = append(ys, x)
	}
	switch len(ys) {
	case 0:
		return "false"
	case 1:
		return ys[0]
	}
	return "(or " + strings.Join(ys, " ") + ")"
}

func sNot(x string) string {
	switch x {
	case "true":
		return "false"
	case "false":
		return "true"
	}
	if strings.HasPrefix(x, "(not ") && strings.HasSuffix(x, ")") && balanced(x[5:len(x)-1]) {
		return x[5 : len(x)-1]
	}
	return "(not " + x + ")"
}

func balanced(s string) bool {
	d := 0
	for i := 0; i < len(s); i++ {
		switch s[i] {
		case '(':
			d++
		case ')':
			d--
			if d < 0 {
				return false
			}
		case ' ':
			if d == 0 {
				return false
			}
		}
	}
	return d == 0
}

func sImp(a, b string) string {
	if a == "true" {
		return b
	}
	if a == "false" || b == "true" {
		return "true"
	}
	return "(=> " + a + " " + b + ")"
}

func sIte(c, a, b string) string {
	if a == b {
		return a
	}
	if c == "true" {
		return a
	}
	if c == "false" {
		return b
	}
	return "(ite " + c + " " + a + " " + b + ")"
}

func sEq(a, b string) string {
	if a == b {
		return "true"
	}
	return "(= " + a + " " + b + ")"
}

// ---------------------------------------------------------------------------
// Frames

type retInfo struct {
	guard string
	vals  []Val
	st    *State
}

type loopInfo struct {
	header  *ssa.BasicBlock
	body    map[*ssa.BasicBlock]bool
	anchor  string // source text of the loop statement's first line
	decr    []*Clause
	pos     token.Pos
	bodyPos token.Pos
	invs    []*Clause
	phiHav  map[*ssa.Phi]Val
	headSt  *State // state at the loop head of the current symbolic iteration (after havoc)
	entrySt *State // state when the loop was entered (before havoc), for atEntry(e)
}

type Frame struct {
	g         *Gen
	fn        *ssa.Function
	id        string
	key       string
	vals      map[ssa.Value]Val
	fc        *FuncContract
	top       bool
	depth     int
	defers    []deferEntry
	params    map[string]Val
	old       *State
	rets      []retInfo
	loops     map[*ssa.BasicBlock]*loopInfo
	parent    *Frame
	free      []Val
	callIdx   map[string]int
	panics    []string
	noPanic   bool
	reach     map[*ssa.BasicBlock]string
	exit      map[*ssa.BasicBlock]*State
	curBlk    *ssa.BasicBlock
	curReach  string
	curSt     *State
	curPos    token.Pos                // position of the instruction being executed (for an inlining caller: the call)
	closures  []*Closure               // closures created in this frame (their captured state may be touched when they escape)
	jointExit map[*ssa.BasicBlock]bool // returning blocks whose [rundefers; loads; return] tail is executed once after merging
	jointSts  []*State
	jointGs   []string
	jointBlk  *ssa.BasicBlock
	objs      []*types.Var
	objSeen   map[*types.Var]bool
	allocOf   map[types.Object]*ssa.Alloc   // address-taken source variables and their cells
	freeOf    map[types.Object]*ssa.FreeVar // captured source variables (closures): resolved through the captured cell
}

func (g *Gen) newFrame(fn *ssa.Function, parent *Frame) *Frame {
	g.frameSeq++
	key := keyOfSSAFunc(fn)
	if a, ok := g.keyAlias[fn]; ok {
		key = a
	}
	fr := &Frame{g: g, fn: fn, id: fmt.Sprintf("f%d", g.frameSeq), key: key, vals: map[ssa.Value]Val{}, params: map[string]Val{},
		parent: parent, callIdx: map[string]int{}, reach: map[*ssa.BasicBlock]string{}, exit: map[*ssa.BasicBlock]*State{}}
	if parent != nil {
		fr.depth = parent.depth + 1
		fr.noPanic = parent.noPanic
	}
	return fr
}

func (fr *Frame) onStack(fn *ssa.Function) bool {
	for f := fr; f != nil; f = f.parent {
		if f.fn == fn {
			return true
		}
	}
	return false
}

// rpo returns the blocks in reverse post-order ignoring back edges, and the loops.
func analyzeCFG(fn *ssa.Function) ([]*ssa.BasicBlock, map[*ssa.BasicBlock]*loopInfo) {
	loops := map[*ssa.BasicBlock]*loopInfo{}
	if len(fn.Blocks) == 0 {
		return nil, loops
	}
	// back edges: u -> h where h dominates u
	for _, u := range fn.Blocks {
		for _, h := range u.Succs {
			if h.Dominates(u) {
				li := loops[h]
				if li == nil {
					li = &loopInfo{header: h, body: map[*ssa.BasicBlock]bool{h: true}}
					loops[h] = li
				}
				// natural loop: nodes that reach u without passing h
				var stack []*ssa.BasicBlock
				if !li.body[u] {
					li.body[u] = true
					stack = append(stack, u)
				}
				for len(stack) > 0 {
					x := stack[len(stack)-1]
					stack = stack[:len(stack)-1]
					for _, p := range x.Preds {
						if !li.body[p] {
							li.body[p] = true
							stack = append(stack, p)
						}
					}
				}
			}
		}
	}
	seen := map[*ssa.BasicBlock]bool{}
	var post []*ssa.BasicBlock
	var dfs func(b *ssa.BasicBlock)
	dfs = func(b *ssa.BasicBlock) {
		seen[b] = true
		for _, s := range b.Succs {
			if !seen[s] && !s.Dominates(b) {
				dfs(s)
			}
		}
		post = append(post, b)
	}
	dfs(fn.Blocks[0])
	for i, j := 0, len(post)-1; i < j; i, j = i+1, j-1 {
		post[i], post[j] = post[j], post[i]
	}
	return post, loops
}

// loopAnchors maps each loop header to the source text of the enclosing loop statement.
func (g *Gen) loopAnchors(fn *ssa.Function, loops map[*ssa.BasicBlock]*loopInfo) {
	syn := fn.Syntax()
	if syn == nil {
		return
	}
	type lp struct {
		pos, end, body token.Pos
		text           string
	}
	var all []lp
	ast.Inspect(syn, func(n ast.Node) bool {
		switch s := n.(type) {
		case *ast.FuncLit:
			if n != syn {
				return false
			}
		case *ast.ForStmt:
			all = append(all, lp{s.Pos(), s.End(), s.Body.Lbrace, g.srcText(s.Pos(), s.Body.Lbrace)})
		case *ast.RangeStmt:
			all = append(all, lp{s.Pos(), s.End(), s.Body.Lbrace, g.srcText(s.Pos(), s.Body.Lbrace)})
		}
		return true
	})
	for h, li := range loops {
		// position evidence: any instruction of the loop body with a position
		var ps []token.Pos
		for b := range li.body {
			for _, in := range b.Instrs {
				switch in.(type) {
				case *ssa.Phi, *ssa.Alloc, *ssa.DebugRef:
					continue // positions of declarations, possibly outside the loop
				}
				if p := in.Pos(); p.IsValid() {
					ps = append(ps, p)
				}
			}
		}
		_ = h
		// innermost loop statement that contains all positions
		best := -1
		for i, l := range all {
			inside := 0
			for _, p := range ps {
				if p >= l.pos && p <= l.end {
					inside++
				}
			}
			ok := len(ps) > 0 && inside*10 >= len(ps)*9
			if ok && (best < 0 || (all[i].end-all[i].pos) < (all[best].end-all[best].pos)) {
				best = i
			}
		}
		if os.Getenv("GOVC_DEBUG") != "" {
			fmt.Fprintf(os.Stderr, "loop in %s header=%d nps=%d best=%d\n", fn.Name(), h.Index, len(ps), best)
		}
		if best >= 0 {
			li.anchor = strings.TrimSpace(all[best].text)
			li.pos = all[best].pos
			li.bodyPos = all[best].body + 1
		}
	}
}

func (g *Gen) srcText(from, to token.Pos) string {
	pf := g.fset.Position(from)
	pt := g.fset.Position(to)
	data, err := readFileCached(pf.Filename)
	if err != nil || pf.Offset > len(data) || pt.Offset > len(data) || pf.Offset > pt.Offset {
		return ""
	}
	return string(data[pf.Offset:pt.Offset])
}

// ---------------------------------------------------------------------------
// Heap / cell access on states (with write tracking)

type writeSet struct {
	heaps    map[string]bool            // heaps written
	bases    map[string]map[string]bool // heap -> loop-invariant base refs written (when not `all`)
	all      map[string]bool            // heap written at a base that is not loop invariant
	cells    map[string]bool
	start    int // value of the fresh counter when the dry run began
	allocSet map[string]bool
	cellVals map[string]Val // dryCallee: a value (for sort and type) of each written cell
}

var reNum = regexp.MustCompile(`!([0-9]+)$`)

// stableBase: a reference term that denotes the same object before and after the code being summarised: a plain
// symbol introduced before the dry run began, or an address computation (field address, no heap read) over such symbols.
func (ws *writeSet) stableBase(b string) bool {
	if b == "" {
		return false
	}
	if strings.ContainsAny(b, " ()") {
		if strings.Contains(b, "select") || strings.Contains(b, "H$") || strings.Contains(b, "H0$") || strings.Contains(b, "ite") {
			return false
		}
		for _, tok := range strings.FieldsFunc(b, func(r rune) bool { return r == ' ' || r == '(' || r == ')' }) {
			if m := reNum.FindStringSubmatch(tok); m != nil {
				n := 0
				fmt.Sscan(m[1], &n)
				if n > ws.start {
					return false
				}
			}
		}
		return true
	}
	if m := reNum.FindStringSubmatch(b); m != nil {
		n := 0
		fmt.Sscan(m[1], &n)
		return n <= ws.start
	}
	return true
}

// freshRooted: a heap-free address term all of whose symbols introduced during the dry run are objects allocated
// during it (e.g. the backing array of a slice made by the callee, a field address inside a fresh object).
func (ws *writeSet) freshRooted(b string) bool {
	if ws.allocSet == nil || b == "" || strings.Contains(b, "select") || strings.Contains(b, "H$") || strings.Contains(b, "H0$") || strings.Contains(b, "ite") {
		return false
	}
	found := false
	for _, tok := range strings.FieldsFunc(b, func(r rune) bool { return r == ' ' || r == '(' || r == ')' }) {
		if m := reNum.FindStringSubmatch(tok); m != nil {
			n := 0
			fmt.Sscan(m[1], &n)
			if n > ws.start {
				if !ws.allocSet[tok] {
					return false
				}
				found = true
			}
		}
	}
	return found
}

func (ws *writeSet) note(name, base string) {
	if ws.allocSet != nil && ws.allocSet[base] && !ws.stableBase(base) {
		// an object allocated inside the loop: invisible to (and distinct from) everything that existed before
		return
	}
	if ws.freshRooted(base) {
		return
	}
	ws.heaps[name] = true
	if ws.all[name] {
		return
	}
	if !ws.stableBase(base) {
		if os.Getenv("GOVC_DEBUG_WS") != "" {
			fmt.Fprintf(os.Stderr, "  ws: %s written at unstable base %s\n", name, truncate(base, 300))
		}
		ws.all[name] = true
		return
	}
	if ws.bases[name] == nil {
		ws.bases[name] = map[string]bool{}
	}
	ws.bases[name][base] = true
}

func (g *Gen) heapTerm(st *State, name, srt string) string {
	if t, ok := st.heaps[name]; ok {
		return t
	}
	init := "H0$" + sanitize(name)
	g.vc.decl(init, fmt.Sprintf("(declare-const %s %s)", init, srt))
	st.heaps[name] = init
	st.hsort[name] = srt
	return init
}

// setHeap installs a new value of a heap; base is the object ref whose component changed ("" = unknown/all).
func (g *Gen) setHeap(st *State, name, srt, term, base string) {
	st.hsort[name] = srt
	st.heaps[name] = g.vc.define("H$"+name, srt, term)
	if g.ws != nil {
		g.ws.note(name, base)
	}
}

func (g *Gen) setCell(st *State, id string, v Val) {
	st.cells[id] = v
	if g.ws != nil {
		g.ws.cells[id] = true
	}
}

// leafPaths enumerates the scalar leaves of a struct type as field paths.
func (g *Gen) leafPaths(t types.Type, prefix []string, out *[][]string, tys *[]types.Type) {
	if st, ok := types.Unalias(t).Underlying().(*types.Struct); ok {
		for i := 0; i < st.NumFields(); i++ {
			f := st.Field(i)
			name := f.Name()
			if name == "_" {
				continue
			}
			g.leafPaths(f.Type(), append(append([]string{}, prefix...), name), out, tys)
		}
		return
	}
	*out = append(*out, prefix)
	*tys = append(*tys, t)
}

func heapName(structKey string, path []string) string {
	return structKey + "." + strings.Join(path, ".")
}

func (g *Gen) heapSort(elem string) string { return "(Array Int " + elem + ")" }

// loadPtr reads the value a pointer designates.
func (g *Gen) loadPtr(st *State, p *Ptr) Val {
	switch p.Kind {
	case pCell, pGlobal:
		if v, ok := st.cells[p.Cell]; ok {
			return v
		}
		// first read of a global / unknown cell: initial value
		srt := g.sortOf(p.Ty)
		init := "C0$" + sanitize(p.Cell)
		g.vc.decl(init, fmt.Sprintf("(declare-const %s %s)", init, srt))
		v := Val{T: init, S: srt, Ty: p.Ty}
		st.cells[p.Cell] = v
		return v
	case pField:
		if stt, ok := types.Unalias(p.Ty).Underlying().(*types.Struct); ok {
			key := g.structKey(p.Ty)
			srt := g.structSort(p.Ty, stt)
			if stt.NumFields() == 0 {
				return Val{T: "mk$" + key, S: srt, Ty: p.Ty}
			}
			var fs []string
			for i := 0; i < stt.NumFields(); i++ {
				f := stt.Field(i)
				if f.Name() == "_" {
					fs = append(fs, g.zero(f.Type()))
					continue
				}
				sub := &Ptr{Kind: pField, Base: p.Base, Struct: p.Struct, Path: append(append([]string{}, p.Path...), f.Name()), Ty: f.Type()}
				fs = append(fs, g.loadPtr(st, sub).T)
			}
			return Val{T: fmt.Sprintf("(mk$%s %s)", key, strings.Join(fs, " ")), S: srt, Ty: p.Ty}
		}
		srt := g.sortOf(p.Ty)
		g.heapTy[heapName(p.Struct, p.Path)] = p.Ty
		h := g.heapTerm(st, heapName(p.Struct, p.Path), g.heapSort(srt))
		return Val{T: fmt.Sprintf("(select %s %s)", h, p.Base), S: srt, Ty: p.Ty}
	case pElem:
		srt := g.sortOf(p.Ty)
		if p.Slots != nil && p.SlotIx < len(*p.Slots) && (*p.Slots)[p.SlotIx].T != "" {
			return (*p.Slots)[p.SlotIx]
		}
		h := g.heapTerm(st, "HA$"+srt, "(Array Int (Array Int "+srt+"))")
		return Val{T: fmt.Sprintf("(select (select %s %s) %s)", h, p.Arr, p.Idx), S: srt, Ty: p.Ty}
	case pElemStr:
		v := Val{T: fmt.Sprintf("(at %s %s)", p.Src.T, p.Idx), S: "Int", Ty: p.Ty}
		if g.bv {
			v = Val{T: fmt.Sprintf("(atbv %s %s)", p.Src.T, p.Idx), S: "(_ BitVec 8)", Ty: p.Ty}
		} else {
			g.vc.assume("", fmt.Sprintf("(and (<= 0 %s) (< %s 256))", v.T, v.T))
		}
		return v
	}
	return g.freshVal("load", p.Ty)
}

func (g *Gen) storePtr(st *State, p *Ptr, v Val) {
	switch p.Kind {
	case pCell, pGlobal:
		v.Ty = p.Ty
		g.setCell(st, p.Cell, v)
	case pField:
		if stt, ok := types.Unalias(p.Ty).Underlying().(*types.Struct); ok {
			key := g.structKey(p.Ty)
			g.structSort(p.Ty, stt)
			for i := 0; i < stt.NumFields(); i++ {
				f := stt.Field(i)
				if f.Name() == "_" {
					continue
				}
				sub := &Ptr{Kind: pField, Base: p.Base, Struct: p.Struct, Path: append(append([]string{}, p.Path...), f.Name()), Ty: f.Type()}
				fv := Val{T: fmt.Sprintf("(%s %s)", g.fieldSel(key, f.Name(), i), v.T), S: g.sortOf(f.Type()), Ty: f.Type()}
				fv.T = simplifySel(fv.T)
				g.storePtr(st, sub, fv)
			}
			return
		}
		srt := g.sortOf(p.Ty)
		name := heapName(p.Struct, p.Path)
		g.heapTy[name] = p.Ty
		h := g.heapTerm(st, name, g.heapSort(srt))
		g.setHeap(st, name, g.heapSort(srt), fmt.Sprintf("(store %s %s %s)", h, p.Base, g.coerce(v, srt)), p.Base)
	case pElem:
		srt := g.sortOf(p.Ty)
		if p.Slots != nil && p.SlotIx < len(*p.Slots) {
			(*p.Slots)[p.SlotIx] = v
		}
		name := "HA$" + srt
		hs := "(Array Int (Array Int " + srt + "))"
		h := g.heapTerm(st, name, hs)
		g.setHeap(st, name, hs, fmt.Sprintf("(store %s %s (store (select %s %s) %s %s))", h, p.Arr, h, p.Arr, p.Idx, g.coerce(v, srt)), p.Arr)
	case pElemStr:
		if p.Origin != nil {
			cur := g.loadPtr(st, p.Origin)
			nt := fmt.Sprintf("(supd %s %s %s)", cur.T, p.Idx, g.toInt(v))
			if cur.T == "(zeros 1)" && p.Idx == "0" {
				nt = fmt.Sprintf("(byte1 %s)", g.toInt(v)) // canonical form of a one-byte string (no extensionality axiom needed)
			}
			g.storePtr(st, p.Origin, Val{T: nt, S: "Str", Ty: p.Origin.Ty})
			return
		}
		g.vc.note("unmodelled", "store into byte string element in "+g.curTop)
	}
}

// simplifySel rewrites (f$K$x (mk$K a b c)) when syntactically evident — keeps terms small.
func simplifySel(t string) string { return t }

func (g *Gen) coerce(v Val, srt string) string {
	if v.S == srt || v.S == "" {
		return v.T
	}
	return v.T
}

func (g *Gen) freshVal(prefix string, t types.Type) Val {
	srt := g.sortOf(t)
	if srt == "Tuple" {
		tup := t.(*types.Tuple)
		var vs []Val
		for i := 0; i < tup.Len(); i++ {
			vs = append(vs, g.freshVal(prefix, tup.At(i).Type()))
		}
		return Val{S: "Tuple", Ty: t, Tup: vs}
	}
	v := Val{T: g.vc.freshConst(prefix, srt), S: srt, Ty: t}
	g.typeFacts(v)
	return v
}

// typeFacts asserts range facts that follow from the Go type of a fresh value.
func (g *Gen) typeFacts(v Val) {
	if v.Ty == nil || g.bv {
		return
	}
	if b, ok := types.Unalias(v.Ty).Underlying().(*types.Basic); ok && b.Info()&types.IsInteger != 0 && v.S == "Int" {
		lo, hi := intRange(b)
		g.vc.lines = append(g.vc.lines, fmt.Sprintf("(assert (and (<= %s %s) (<= %s %s)))", lo, v.T, v.T, hi))
	}
	if a, ok := types.Unalias(v.Ty).Underlying().(*types.Array); ok && isByte(a.Elem()) {
		g.vc.lines = append(g.vc.lines, fmt.Sprintf("(assert (= (slen %s) %d))", v.T, a.Len()))
	}
	if v.S == "Slice" {
		g.vc.lines = append(g.vc.lines, fmt.Sprintf("(assert (and (<= 0 (soff %s)) (<= 0 (slenS %s)) (<= (slenS %s) (scap %s))))", v.T, v.T, v.T, v.T))
	}
}

func intRange(b *types.Basic) (string, string) {
	switch b.Kind() {
	case types.Int8:
		return "(- 128)", "127"
	case types.Int16:
		return "(- 32768)", "32767"
	case types.Int32:
		return "(- 2147483648)", "2147483647"
	case types.Uint8:
		return "0", "255"
	case types.Uint16:
		return "0", "65535"
	case types.Uint32:
		return "0", "4294967295"
	case types.Uint, types.Uint64, types.Uintptr:
		return "0", "18446744073709551615"
	}
	return "(- 9223372036854775808)", "9223372036854775807"
}

// ---------------------------------------------------------------------------
// Merging

func (g *Gen) merge(sts []*State, conds []string) *State {
	if len(sts) == 1 {
		return sts[0].Clone()
	}
	out := sts[0].Clone()
	// heaps
	keys := map[string]bool{}
	for _, s := range sts {
		for k := range s.heaps {
			keys[k] = true
		}
	}
	ks := make([]string, 0, len(keys))
	for k := range keys {
		ks = append(ks, k)
	}
	sort.Strings(ks)
	for _, k := range ks {
		srt := out.hsort[k]
		var ts []string
		same := true
		for _, s := range sts {
			t := g.heapTerm(s, k, srt)
			ts = append(ts, t)
			if t != ts[0] {
				same = false
			}
		}
		if same {
			out.heaps[k] = ts[0]
			continue
		}
		out.heaps[k] = g.vc.define("H$"+k, srt, iteChain(conds, ts))
	}
	// cells
	ckeys := map[string]bool{}
	for _, s := range sts {
		for k := range s.cells {
			ckeys[k] = true
		}
	}
	cks := make([]string, 0, len(ckeys))
	for k := range ckeys {
		cks = append(cks, k)
	}
	sort.Strings(cks)
	for _, k := range cks {
		var vs []Val
		var cs []string
		lazy := strings.HasPrefix(k, "ghost$") || strings.HasPrefix(k, "G$")
		var sample Val
		for _, s := range sts {
			if v, ok := s.cells[k]; ok {
				sample = v
			}
		}
		for i, s := range sts {
			if v, ok := s.cells[k]; ok {
				vs = append(vs, v)
				cs = append(cs, conds[i])
			} else if lazy {
				// never touched on this path: still the initial value
				init := "C0$" + sanitize(k)
				g.vc.decl(init, fmt.Sprintf("(declare-const %s %s)", init, sample.S))
				vs = append(vs, Val{T: init, S: sample.S, Ty: sample.Ty})
				cs = append(cs, conds[i])
			}
		}
		out.cells[k] = g.mergeVals(vs, cs, "c$"+k)
	}
	// source variables: keep those present everywhere
	for k := range out.src {
		var vs []Val
		ok := true
		for _, s := range sts {
			v, has := s.src[k]
			if !has || s.srcAddr[k] != out.srcAddr[k] {
				ok = false
				break
			}
			vs = append(vs, v)
		}
		if !ok {
			delete(out.src, k)
			continue
		}
		out.src[k] = g.mergeVals(vs, conds, "v$"+k.Name())
	}
	for _, s := range sts {
		for k := range s.escaped {
			out.escaped[k] = true
		}
	}
	return out
}

func iteChain(conds, ts []string) string {
	r := ts[len(ts)-1]
	for i := len(ts) - 2; i >= 0; i-- {
		r = sIte(conds[i], ts[i], r)
	}
	return r
}

func (g *Gen) mergeVals(vs []Val, conds []string, name string) Val {
	if len(vs) == 0 {
		return Val{}
	}
	same := true
	for _, v := range vs[1:] {
		if v.T != vs[0].T || v.S != vs[0].S {
			same = false
		}
	}
	if same {
		return vs[0]
	}
	for _, v := range vs[1:] {
		if v.S != vs[0].S {
			// incompatible: take the first (should not happen for well-typed programs)
			return vs[0]
		}
	}
	if vs[0].S == "Tuple" {
		out := Val{S: "Tuple", Ty: vs[0].Ty}
		for i := range vs[0].Tup {
			var comp []Val
			for _, v := range vs {
				if i < len(v.Tup) {
					comp = append(comp, v.Tup[i])
				}
			}
			out.Tup = append(out.Tup, g.mergeVals(comp, conds, name))
		}
		return out
	}
	var ts []string
	for _, v := range vs {
		ts = append(ts, v.T)
	}
	r := Val{T: g.vc.define(name, vs[0].S, iteChain(conds, ts)), S: vs[0].S, Ty: vs[0].Ty}
	// keep static pointer / closure info only if identical
	p0 := vs[0].Ptr
	samePtr := p0 != nil
	for _, v := range vs[1:] {
		if v.Ptr != p0 {
			samePtr = false
		}
	}
	if samePtr {
		r.Ptr = p0
	}
	return r
}

// ---------------------------------------------------------------------------
// Function execution

// edgeCond returns the condition under which control flows from p to its k-th occurrence in b.Preds.
func (fr *Frame) edgeCond(p, b *ssa.BasicBlock, occ int) string {
	r := fr.reach[p]
	if len(p.Instrs) == 0 {
		return r
	}
	if iff, ok := p.Instrs[len(p.Instrs)-1].(*ssa.If); ok {
		c := fr.val(iff.Cond).T
		// which successor?
		idx := -1
		seen := 0
		for i, s := range p.Succs {
			if s == b {
				if seen == occ {
					idx = i
					break
				}
				seen++
			}
		}
		if idx == 0 {
			return sAnd(r, c)
		}
		return sAnd(r, sNot(c))
	}
	return r
}

// execFunc symbolically executes fn from state st under guard; returns the merged results, final state and exit guard.
func (g *Gen) execFunc(fr *Frame, st *State, guard string) ([]Val, *State, string) {
	fn := fr.fn
	order, loops := analyzeCFG(fn)
	fr.loops = loops
	g.loopAnchors(fn, loops)
	invFC := fr.fc
	if invFC == nil {
		// loops inside closures (and inlined helpers) of the function under contract may carry its invariants too
		top := fr
		for top.parent != nil {
			top = top.parent
		}
		if top.fc != nil && fr.fn.Parent() != nil {
			invFC = top.fc
		}
	}
	if invFC != nil {
		// an anchor is a substring of the loop header's source text, optionally followed by #k to pick the k-th
		// such loop of the function in source order
		matches := func(li *loopInfo, anchor string) bool {
			if anchor == "" {
				return false
			}
			text, k := anchor, 0
			if i := strings.LastIndex(anchor, "#"); i > 0 {
				if n, err := strconv.Atoi(anchor[i+1:]); err == nil && n > 0 {
					text, k = anchor[:i], n
				}
			}
			if !strings.Contains(li.anchor, text) {
				return false
			}
			if k == 0 {
				return true
			}
			var cands []*loopInfo
			for _, o := range loops {
				if strings.Contains(o.anchor, text) {
					cands = append(cands, o)
				}
			}
			sort.Slice(cands, func(i, j int) bool { return cands[i].bodyPos < cands[j].bodyPos })
			return k <= len(cands) && cands[k-1] == li
		}
		for _, li := range loops {
			for _, inv := range invFC.Invs {
				if matches(li, inv.Anchor) {
					li.invs = append(li.invs, inv)
					g.seenCall[inv] = true
				}
			}
			for _, d := range invFC.Decr {
				if matches(li, d.Anchor) {
					li.decr = append(li.decr, d)
				}
			}
		}
	}
	fr.detectJointExit()
	g.runBlocks(fr, order, st, guard, nil)
	if len(fr.jointSts) > 0 {
		// all returns share the tail [rundefers; result loads; return]: merge first, run the deferred calls once
		var conds []string
		conds = append(conds, fr.jointGs...)
		mst := g.merge(fr.jointSts, conds)
		mr := g.vc.define(fr.id+"jx", "Bool", sOr(conds...))
		fr.curBlk = fr.jointBlk
		fr.curReach = mr
		fr.curSt = mst
		started := false
		for _, in := range fr.jointBlk.Instrs {
			if _, ok := in.(*ssa.RunDefers); ok {
				started = true
			}
			if !started {
				continue
			}
			if in.Pos().IsValid() {
				fr.curPos = in.Pos()
			}
			if !g.execInstr(fr, mst, in, mr) {
				break
			}
		}
	}
	// merge returns
	if len(fr.rets) == 0 {
		return nil, st, "false"
	}
	var sts []*State
	var conds []string
	for _, r := range fr.rets {
		sts = append(sts, r.st)
		conds = append(conds, r.guard)
	}
	out := g.merge(sts, conds)
	var res []Val
	n := len(fr.rets[0].vals)
	for i := 0; i < n; i++ {
		var vs []Val
		for _, r := range fr.rets {
			vs = append(vs, r.vals[i])
		}
		res = append(res, g.mergeVals(vs, conds, fr.id+"ret"))
	}
	return res, out, g.vc.define(fr.id+"exit", "Bool", sOr(conds...))
}

// runBlocks executes the given blocks (in order). If only != nil, execution is restricted to that set
// (used for the dry run of a loop body) and starts at order[0] with the given state.
func (g *Gen) runBlocks(fr *Frame, order []*ssa.BasicBlock, st0 *State, guard string, only map[*ssa.BasicBlock]bool) {
	for bi, b := range order {
		if only != nil && !only[b] {
			continue
		}
		var st *State
		var r string
		li := fr.loops[b]
		if bi == 0 {
			st = st0.Clone()
			r = guard
			if only != nil {
				// dry run entered at a loop header: give phis arbitrary values
				for _, in := range b.Instrs {
					if phi, ok := in.(*ssa.Phi); ok {
						fr.vals[phi] = g.freshVal(fr.id+"dry", phi.Type())
					}
				}
			}
		} else {
			var sts []*State
			var conds []string
			var predIdx []int
			occ := map[*ssa.BasicBlock]int{}
			for i, p := range b.Preds {
				k := occ[p]
				occ[p]++
				if li != nil && li.body[p] {
					continue // back edge
				}
				if only != nil && !only[p] {
					continue
				}
				ps, ok := fr.exit[p]
				if !ok || fr.reach[p] == "false" {
					continue
				}
				c := fr.edgeCond(p, b, k)
				if c == "false" {
					continue
				}
				sts = append(sts, ps)
				conds = append(conds, g.vc.define(fr.id+"e", "Bool", c))
				predIdx = append(predIdx, i)
			}
			if len(sts) == 0 {
				fr.reach[b] = "false"
				delete(fr.exit, b)
				continue
			}
			st = g.merge(sts, conds)
			r = g.vc.define(fr.id+"r"+fmt.Sprint(b.Index), "Bool", sOr(conds...))
			// phis
			for _, in := range b.Instrs {
				phi, ok := in.(*ssa.Phi)
				if !ok {
					break
				}
				var vs []Val
				for _, pi := range predIdx {
					vs = append(vs, fr.val(phi.Edges[pi]))
				}
				v := g.mergeVals(vs, conds, fr.id+"phi")
				v.Ty = phi.Type()
				fr.vals[phi] = v
				if o := fr.objForPhi(phi); o != nil {
					st.src[o] = v
					st.srcAddr[o] = false
				}
			}
		}
		fr.reach[b] = r
		if li != nil && (only == nil || bi != 0) {
			st = g.enterLoop(fr, li, st, r, order)
		}
		fr.curBlk = b
		fr.curReach = r
		fr.curSt = st
		alive := true
		for _, in := range b.Instrs {
			if _, ok := in.(*ssa.Phi); ok {
				continue
			}
			if _, ok := in.(*ssa.RunDefers); ok && fr.jointExit[b] && only == nil && g.dry == 0 {
				fr.jointSts = append(fr.jointSts, st)
				fr.jointGs = append(fr.jointGs, r)
				fr.jointBlk = b
				alive = false
				break
			}
			if in.Pos().IsValid() {
				fr.curPos = in.Pos()
			}
			if !g.execInstr(fr, st, in, r) {
				alive = false
				break
			}
		}
		if alive {
			fr.exit[b] = st
		} else {
			delete(fr.exit, b)
			continue
		}
		// back edges leaving this block: check invariants
		if only == nil || true {
			occ := map[*ssa.BasicBlock]int{}
			for _, h := range b.Succs {
				k := occ[h]
				occ[h]++
				hl := fr.loops[h]
				if hl == nil || !hl.body[b] || !h.Dominates(b) {
					continue
				}
				// index of this edge in h.Preds
				pidx := -1
				seen := 0
				for i, p := range h.Preds {
					if p == b {
						if seen == k {
							pidx = i
							break
						}
						seen++
					}
				}
				c := g.vc.define(fr.id+"be", "Bool", fr.edgeCond(b, h, k))
				g.checkInvariants(fr, hl, st, c, pidx, "preserved")
			}
		}
	}
}

// enterLoop: check invariants on entry, havoc what the loop modifies, assume invariants.
func (g *Gen) enterLoop(fr *Frame, li *loopInfo, st *State, r string, order []*ssa.BasicBlock) *State {
	h := li.header
	// 1. invariants on entry (phis already hold the merged entry values)
	li.entrySt = st.Clone()
	g.checkInvariants(fr, li, st, r, -1, "entry")
	// 2. write set by dry run
	ws := g.dryRun(fr, li, st, order)
	// 3. havoc
	st = st.Clone()
	li.phiHav = map[*ssa.Phi]Val{}
	if g.vc.clock == "" {
		g.vc.clock = "0"
	}
	epoch := g.vc.freshConst(fr.id+"epoch", "Int")
	g.vc.lines = append(g.vc.lines, fmt.Sprintf("(assert (> %s %s))", epoch, g.vc.clock))
	g.vc.clock = epoch
	older := func(v Val) {
		// loop-carried references denote objects that already exist at this visit of the loop head
		switch v.S {
		case "Slice":
			g.vc.assume("", fmt.Sprintf("(< (allocid$ (sarr %s)) %s)", v.T, epoch))
		case "Int":
			if v.Ty != nil {
				switch types.Unalias(v.Ty).Underlying().(type) {
				case *types.Pointer, *types.Map, *types.Chan:
					g.vc.assume("", fmt.Sprintf("(< (allocid$ %s) %s)", v.T, epoch))
				}
			}
		}
	}
	for _, in := range h.Instrs {
		phi, ok := in.(*ssa.Phi)
		if !ok {
			break
		}
		entryVal := fr.vals[phi]
		v := g.freshVal(fr.id+"loop_"+phi.Comment, phi.Type())
		if phi.Comment == "rangeindex" || phi.Comment == "rangeint.iter" {
			g.vc.assume("", fmt.Sprintf("(>= %s (- 1))", v.T))
		}
		_ = entryVal
		fr.vals[phi] = v
		li.phiHav[phi] = v
		older(v)
		if o := fr.objForPhi(phi); o != nil {
			st.src[o] = v
			st.srcAddr[o] = false
		}
	}
	for _, k := range sortedKeysB(ws.heaps) {
		srt := st.hsort[k]
		if srt == "" {
			continue
		}
		if ws.all[k] || !strings.HasPrefix(srt, "(Array Int ") {
			st.heaps[k] = g.vc.freshConst("Hl$"+k, srt)
			continue
		}
		// only the written (loop-invariant) objects change: frame for everything else in this heap
		elem := strings.TrimSuffix(strings.TrimPrefix(srt, "(Array Int "), ")")
		cur := g.heapTerm(st, k, srt)
		for _, b := range sortedKeysB(ws.bases[k]) {
			ne := g.vc.freshConst("Hle$"+k, elem)
			cur = fmt.Sprintf("(store %s %s %s)", cur, b, ne)
			// references stored in loop-carried memory denote objects that already exist at this visit of the loop head
			older(Val{T: ne, S: elem, Ty: g.heapTy[k]})
		}
		st.heaps[k] = g.vc.define("Hl$"+k, srt, cur)
	}
	for _, k := range sortedKeysB(ws.cells) {
		old, ok := st.cells[k]
		if !ok {
			continue
		}
		nv := g.freshVal("cl$"+k, old.Ty)
		if old.Ty == nil {
			nv = Val{T: g.vc.freshConst("cl$"+k, old.S), S: old.S}
		}
		older(nv)
		st.cells[k] = nv
	}
	li.headSt = st.Clone()
	// 4. assume invariants
	for _, inv := range li.invs {
		env := g.envFor(fr, st)
		env.pos = li.bodyPos
		env.headSt = st
		env.entrySt = li.entrySt
		for _, in := range li.header.Instrs {
			if phi, ok := in.(*ssa.Phi); ok && (phi.Comment == "rangeindex" || phi.Comment == "rangeint.iter") {
				v := fr.val(phi)
				env.loopIdx = &v
			}
		}
		v, err := g.evalBool(inv.Expr, env)
		if os.Getenv("GOVC_DEBUG") != "" {
			fmt.Fprintf(os.Stderr, "assume inv %s dry=%d: %v %v\n", inv.Name, g.dry, truncate(v, 200), err)
			for o, sv := range st.src {
				fmt.Fprintf(os.Stderr, "   src %s addr=%v T=%s ptr=%v cellval=%v\n", o.Name(), st.srcAddr[o], truncate(sv.T, 40), sv.Ptr != nil, func() string {
					if sv.Ptr != nil {
						return st.cells[sv.Ptr.Cell].T
					}
					return ""
				}())
			}
		}
		if err != nil {
			g.contractError(inv, err)
			continue
		}
		g.vc.assume(r, v)
	}
	if len(li.invs) > 0 && g.dry == 0 {
		g.addObligation(&Obligation{Name: fmt.Sprintf("%s.loop[%s].cover.invariants-satisfiable", fr.topKey(), li.invs[0].Anchor), Func: fr.topKey(), Kind: "cover",
			Guard: r, Goal: "false", Expect: "sat", Src: "vacuity guard: the loop invariants are jointly satisfiable at the loop head"})
	}
	return st
}

func sortedKeysB(m map[string]bool) []string {
	ks := make([]string, 0, len(m))
	for k := range m {
		ks = append(ks, k)
	}
	sort.Strings(ks)
	return ks
}

func (g *Gen) checkInvariants(fr *Frame, li *loopInfo, st *State, guard string, backEdge int, when string) {
	if g.dry > 0 {
		return
	}
	if backEdge >= 0 {
		// termination: the variant is bounded below at the head and strictly smaller at the back edge
		for _, d := range li.decr {
			envNow := g.envFor(fr, st)
			envNow.pos = li.bodyPos
			envHead := g.envFor(fr, li.headSt)
			envHead.pos = li.bodyPos
			now, err1 := g.eval(d.Expr, envNow)
			head, err2 := g.eval(d.Expr, envHead)
			if err1 != nil || err2 != nil || now.S != "Int" || head.S != "Int" {
				err := err1
				if err == nil {
					err = err2
				}
				if err == nil {
					err = fmt.Errorf("variant must be an integer")
				}
				g.contractError(d, err)
				continue
			}
			g.addObligation(&Obligation{Name: fmt.Sprintf("%s.loop[%s].terminates", fr.topKey(), d.Anchor), Func: fr.topKey(), Kind: "decreases", Props: d.Props,
				Guard: guard, Goal: fmt.Sprintf("(and (>= %s 0) (< %s %s))", head.T, now.T, head.T), Src: "decreases " + d.Src, Pos: fmt.Sprintf("%s:%d", d.File, d.Line)})
		}
	}
	for _, inv := range li.invs {
		env := g.envFor(fr, st)
		env.pos = li.bodyPos
		env.headSt = li.headSt
		env.entrySt = li.entrySt
		if backEdge < 0 {
			env.headSt = st
		}
		for _, in := range li.header.Instrs {
			if phi, ok := in.(*ssa.Phi); ok && (phi.Comment == "rangeindex" || phi.Comment == "rangeint.iter") {
				v := fr.val(phi)
				if backEdge >= 0 {
					v = fr.val(phi.Edges[backEdge])
				}
				env.loopIdx = &v
			}
		}
		if backEdge >= 0 {
			// source variables bound to loop phis take their back-edge values
			env.st = st.Clone()
			for _, in := range li.header.Instrs {
				phi, ok := in.(*ssa.Phi)
				if !ok {
					break
				}
				if o := fr.objForPhi(phi); o != nil {
					env.st.src[o] = fr.val(phi.Edges[backEdge])
					env.st.srcAddr[o] = false
				}
			}
		}
		v, err := g.evalBool(inv.Expr, env)
		if err != nil {
			g.contractError(inv, err)
			continue
		}
		g.addObligation(&Obligation{
			Name: fmt.Sprintf("%s.loop[%s].invariant.%s.%s", fr.topKey(), inv.Anchor, inv.Name, when), Func: fr.topKey(), Kind: "invariant",
			Props: inv.Props, Guard: guard, Goal: v, Src: inv.Src, Pos: fmt.Sprintf("%s:%d", inv.File, inv.Line)})
	}
}

func (fr *Frame) topKey() string {
	f := fr
	for f.parent != nil {
		f = f.parent
	}
	return f.key
}

// dryRun executes the loop body once, discarding everything but the write set.
func (g *Gen) dryRun(fr *Frame, li *loopInfo, st *State, order []*ssa.BasicBlock) *writeSet {
	saveLines, saveObls, saveNotes := len(g.vc.lines), len(g.vc.obls), len(g.vc.notes)
	saveDefers, saveRets := len(fr.defers), len(fr.rets)
	saveClock := g.vc.clock
	saveWS := g.ws
	ws := &writeSet{heaps: map[string]bool{}, cells: map[string]bool{}, bases: map[string]map[string]bool{}, all: map[string]bool{}, start: g.vc.fresh, allocSet: g.vc.allocSet}
	g.ws = ws
	g.dry++
	// blocks of the loop in order, header first
	var sub []*ssa.BasicBlock
	for _, b := range order {
		if li.body[b] {
			sub = append(sub, b)
		}
	}
	savedReach := map[*ssa.BasicBlock]string{}
	savedExit := map[*ssa.BasicBlock]*State{}
	for _, b := range sub {
		if r, ok := fr.reach[b]; ok {
			savedReach[b] = r
		}
		if e, ok := fr.exit[b]; ok {
			savedExit[b] = e
		}
	}
	savedPhis := map[ssa.Value]Val{}
	for _, in := range li.header.Instrs {
		if phi, ok := in.(*ssa.Phi); ok {
			savedPhis[phi] = fr.vals[phi]
		}
	}
	g.runBlocks(fr, sub, st, "true", li.body)
	g.dry--
	g.ws = saveWS
	g.vc.clock = saveClock
	if saveWS != nil {
		for k := range ws.heaps {
			if ws.all[k] {
				saveWS.note(k, "")
			}
			for b := range ws.bases[k] {
				saveWS.note(k, b)
			}
		}
		for k := range ws.cells {
			saveWS.cells[k] = true
		}
	}
	g.vc.lines = g.vc.lines[:saveLines]
	g.vc.obls = g.vc.obls[:saveObls]
	g.vc.notes = g.vc.notes[:saveNotes]
	fr.defers = fr.defers[:saveDefers]
	fr.rets = fr.rets[:saveRets]
	for _, b := range sub {
		delete(fr.reach, b)
		delete(fr.exit, b)
	}
	for b, r := range savedReach {
		fr.reach[b] = r
	}
	for b, e := range savedExit {
		fr.exit[b] = e
	}
	for k, v := range savedPhis {
		fr.vals[k] = v
	}
	return ws
}

func (g *Gen) addObligation(o *Obligation) {
	if g.dry > 0 {
		return
	}
	o.Prefix = len(g.vc.lines)
	if o.Expect == "" {
		o.Expect = "unsat"
	}
	if o.Kind == "nopanic" && g.panicPre != "" {
		// the function under contract declares `panics-unless P`: panic-freedom is proved for entries that satisfy P
		o.Goal = sImp(g.panicPre, o.Goal)
	}
	g.vc.obls = append(g.vc.obls, o)
}

func (g *Gen) contractError(cl *Clause, err error) {
	if g.dry > 0 {
		return
	}
	g.addObligation(&Obligation{Name: fmt.Sprintf("%s.contract-error.%s", g.curTop, cl.Name), Func: g.curTop, Kind: "binding", Props: cl.Props,
		Guard: "true", Goal: "false", Src: cl.Src, Pos: fmt.Sprintf("%s:%d", cl.File, cl.Line), Status: "undischarged", Static: true,
		Output: "contract clause could not be bound to the code: " + err.Error()})
}

// objForPhi finds the source variable a lifted phi stands for.
func (fr *Frame) objForPhi(phi *ssa.Phi) types.Object {
	if phi.Comment == "" {
		return nil
	}
	fr.collectObjs()
	for _, o := range fr.objs {
		if o.Pos() == phi.Pos() && o.Name() == phi.Comment {
			return o
		}
	}
	var cand types.Object
	for _, o := range fr.objs {
		if o.Name() == phi.Comment {
			if cand != nil {
				return nil // ambiguous
			}
			cand = o
		}
	}
	return cand
}

// collectObjs lists the local variables of the function (from debug references), in declaration order.
func (fr *Frame) collectObjs() {
	if fr.objSeen != nil {
		return
	}
	fr.objSeen = map[*types.Var]bool{}
	fr.allocOf = map[types.Object]*ssa.Alloc{}
	fr.freeOf = map[types.Object]*ssa.FreeVar{}
	for _, b := range fr.fn.Blocks {
		for _, in := range b.Instrs {
			if d, ok := in.(*ssa.DebugRef); ok && d.IsAddr && d.Object() != nil {
				if a, ok := d.X.(*ssa.Alloc); ok {
					fr.allocOf[d.Object()] = a
				}
			}
			// captured variables are always resolved through the captured cell
			if d, ok := in.(*ssa.DebugRef); ok && d.Object() != nil {
				if fv, ok := d.X.(*ssa.FreeVar); ok && d.IsAddr {
					fr.freeOf[d.Object()] = fv
				}
				if u, ok := d.X.(*ssa.UnOp); ok && !d.IsAddr && u.Op == token.MUL {
					if fv, ok := u.X.(*ssa.FreeVar); ok {
						fr.freeOf[d.Object()] = fv
					}
				}
			}
		}
	}
	// variables that live in a cell (captured by a closure, or address-taken) whose debug references only mention loaded
	// values: the cell is the Alloc carrying the variable's name and declaration position
	allocAt := map[token.Pos]*ssa.Alloc{}
	for _, b := range fr.fn.Blocks {
		for _, in := range b.Instrs {
			if a, ok := in.(*ssa.Alloc); ok && a.Comment != "" && a.Pos().IsValid() {
				allocAt[a.Pos()] = a
			}
		}
	}
	for _, b := range fr.fn.Blocks {
		for _, in := range b.Instrs {
			if d, ok := in.(*ssa.DebugRef); ok && d.Object() != nil {
				if a, ok := allocAt[d.Object().Pos()]; ok && a.Comment == d.Object().Name() {
					if _, have := fr.allocOf[d.Object()]; !have {
						fr.allocOf[d.Object()] = a
					}
				}
			}
		}
	}
	add := func(o types.Object) {
		if v, ok := o.(*types.Var); ok && v != nil && !fr.objSeen[v] {
			fr.objSeen[v] = true
			fr.objs = append(fr.objs, v)
		}
	}
	for _, p := range fr.fn.Params {
		if p.Object() != nil {
			add(p.Object())
		}
	}
	for _, b := range fr.fn.Blocks {
		for _, in := range b.Instrs {
			if d, ok := in.(*ssa.DebugRef); ok && d.Object() != nil {
				add(d.Object())
			}
		}
	}
	sort.SliceStable(fr.objs, func(i, j int) bool { return fr.objs[i].Pos() < fr.objs[j].Pos() })
}

// detectJointExit finds functions all of whose returning blocks end in the same tail
// [rundefers; loads of result cells...; return], so that deferred calls can be executed once on the merged state.
func (fr *Frame) detectJointExit() {
	fr.jointExit = nil
	if fr.top && fr.fc != nil && len(fr.fc.Returns) > 0 {
		return // `returns` clauses are evaluated per return site, over the variables in scope there
	}
	var blocks []*ssa.BasicBlock
	var sig string
	hasDefer := false
	for _, b := range fr.fn.Blocks {
		for _, in := range b.Instrs {
			if _, ok := in.(*ssa.Defer); ok {
				hasDefer = true
			}
		}
		if len(b.Instrs) == 0 || b == fr.fn.Recover {
			continue
		}
		if _, ok := b.Instrs[len(b.Instrs)-1].(*ssa.Return); !ok {
			continue
		}
		// tail from the last RunDefers
		ri := -1
		for i, in := range b.Instrs {
			if _, ok := in.(*ssa.RunDefers); ok {
				ri = i
			}
		}
		if ri < 0 {
			return
		}
		var parts []string
		for _, in := range b.Instrs[ri+1:] {
			switch x := in.(type) {
			case *ssa.UnOp:
				if _, ok := x.X.(*ssa.Alloc); !ok || x.Op.String() != "*" {
					return
				}
				parts = append(parts, "load "+x.X.Name())
			case *ssa.Return:
				for _, r := range x.Results {
					if u, ok := r.(*ssa.UnOp); ok {
						parts = append(parts, "ret "+u.X.Name())
					} else if c, ok := r.(*ssa.Const); ok {
						parts = append(parts, "retc "+c.String())
					} else {
						return
					}
				}
			case *ssa.DebugRef:
			default:
				return
			}
		}
		s := strings.Join(parts, ";")
		if sig == "" {
			sig = s
		} else if s != sig {
			return
		}
		blocks = append(blocks, b)
	}
	if os.Getenv("GOVC_DEBUG") != "" {
		fmt.Fprintf(os.Stderr, "jointExit %s: hasDefer=%v blocks=%d sig=%q\n", fr.fn.Name(), hasDefer, len(blocks), sig)
	}
	if !hasDefer || len(blocks) < 2 {
		return
	}
	fr.jointExit = map[*ssa.BasicBlock]bool{}
	for _, b := range blocks {
		fr.jointExit[b] = true
	}
}
