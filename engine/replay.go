package main

// Replay of a refuting model against the real code.
//
// Supported class: the function under contract is a package-level function whose parameters are all "simple"
// (integers, bools, strings, []byte, [N]byte, structs of those), and the refuted obligation is either a panic-freedom
// obligation (oracle: the call panics) or an ensures/returns clause that can be translated to Go over the parameters
// and results (oracle: the translated clause is false after the call). The model's parameter values are read back from
// the deciding solver with (get-value), a test is generated and injected with `go test -overlay` (nothing is written
// to /repo), and the violation counts as replayed only when the real code shows the failure.

import (
	"bytes"
	"context"
	"encoding/json"
	"fmt"
	"go/types"
	"os"
	"os/exec"
	"path/filepath"
	"strconv"
	"strings"
	"time"

	"golang.org/x/tools/go/ssa"
)

type replayParam struct {
	Name string
	V    Val
	Ty   types.Type
}

func isSimpleType(t types.Type, depth int) bool {
	if depth > 3 {
		return false
	}
	switch u := types.Unalias(t).Underlying().(type) {
	case *types.Basic:
		return u.Info()&(types.IsInteger|types.IsBoolean|types.IsString) != 0
	case *types.Slice:
		return isByte(u.Elem())
	case *types.Array:
		return isByte(u.Elem())
	case *types.Struct:
		for i := 0; i < u.NumFields(); i++ {
			if !isSimpleType(u.Field(i).Type(), depth+1) {
				return false
			}
		}
		return true
	}
	return false
}

// ---- reading values back from the solver

type sexp struct {
	atom string
	list []*sexp
}

func parseSexps(s string) []*sexp {
	var stack [][]*sexp
	cur := []*sexp{}
	i := 0
	for i < len(s) {
		c := s[i]
		switch {
		case c == '(':
			stack = append(stack, cur)
			cur = []*sexp{}
			i++
		case c == ')':
			if len(stack) == 0 {
				return cur
			}
			n := &sexp{list: cur}
			cur = append(stack[len(stack)-1], n)
			stack = stack[:len(stack)-1]
			i++
		case c == ' ' || c == '\n' || c == '\t' || c == '\r':
			i++
		case c == '"':
			j := i + 1
			for j < len(s) && s[j] != '"' {
				j++
			}
			cur = append(cur, &sexp{atom: s[i:min(j+1, len(s))]})
			i = j + 1
		default:
			j := i
			for j < len(s) && !strings.ContainsRune("() \n\t\r", rune(s[j])) {
				j++
			}
			cur = append(cur, &sexp{atom: s[i:j]})
			i = j
		}
	}
	return cur
}

func sexpInt(e *sexp) (int64, bool) {
	if e == nil {
		return 0, false
	}
	if e.atom != "" {
		if e.atom == "true" {
			return 1, true
		}
		if e.atom == "false" {
			return 0, true
		}
		if strings.HasPrefix(e.atom, "#x") {
			n, err := strconv.ParseUint(e.atom[2:], 16, 64)
			return int64(n), err == nil
		}
		n, err := strconv.ParseInt(e.atom, 10, 64)
		if err != nil {
			// out of int64 range: not replayable with machine integers
			return 0, false
		}
		return n, true
	}
	if len(e.list) == 2 && e.list[0].atom == "-" {
		n, ok := sexpInt(e.list[1])
		return -n, ok
	}
	return 0, false
}

// getValues asks the deciding solver for the values of terms in the refuting model.
func getValues(file, solver string, terms []string) ([]int64, bool) {
	if len(terms) == 0 {
		return nil, true
	}
	data, err := os.ReadFile(file)
	if err != nil {
		return nil, false
	}
	vf := file + ".values.smt2"
	q := append([]byte{}, data...)
	q = append(q, []byte("(get-value ("+strings.Join(terms, " ")+"))\n")...)
	if err := os.WriteFile(vf, q, 0o644); err != nil {
		return nil, false
	}
	defer os.Remove(vf)
	var out string
	for _, sp := range solvers {
		if sp.name == solver {
			r := runOne(context.Background(), sp, vf, 20)
			out = r.out
		}
	}
	i := strings.Index(out, "sat")
	if i < 0 || strings.HasPrefix(strings.TrimSpace(out), "unsat") {
		return nil, false
	}
	rest := out[i+3:]
	es := parseSexps(rest)
	if len(es) == 0 || len(es[0].list) != len(terms) {
		return nil, false
	}
	vals := make([]int64, len(terms))
	for k, pair := range es[0].list {
		if len(pair.list) != 2 {
			return nil, false
		}
		v, ok := sexpInt(pair.list[1])
		if !ok {
			return nil, false
		}
		vals[k] = v
	}
	return vals, true
}

// goLiteral builds the Go literal of a simple-typed parameter from the model.
func (g *Gen) goLiteral(file, solver string, v Val, t types.Type, qual func(*types.Package) string) (string, bool) {
	ts := types.TypeString(t, qual)
	switch u := types.Unalias(t).Underlying().(type) {
	case *types.Basic:
		vals, ok := getValues(file, solver, []string{v.T})
		if !ok {
			if u.Info()&types.IsString == 0 {
				return "", false
			}
		}
		switch {
		case u.Info()&types.IsBoolean != 0:
			return fmt.Sprintf("%s(%v)", ts, vals[0] != 0), true
		case u.Info()&types.IsInteger != 0:
			return fmt.Sprintf("%s(%d)", ts, vals[0]), true
		case u.Info()&types.IsString != 0:
			b, ok := g.modelBytes(file, solver, v.T)
			if !ok {
				return "", false
			}
			return fmt.Sprintf("%s(%q)", ts, string(b)), true
		}
	case *types.Slice:
		b, ok := g.modelBytes(file, solver, v.T)
		if !ok {
			return "", false
		}
		return fmt.Sprintf("%s(%s)", ts, byteSliceLit(b)), true
	case *types.Array:
		b, ok := g.modelBytes(file, solver, v.T)
		if !ok || int64(len(b)) != u.Len() {
			return "", false
		}
		var parts []string
		for _, x := range b {
			parts = append(parts, strconv.Itoa(int(x)))
		}
		return fmt.Sprintf("%s{%s}", ts, strings.Join(parts, ", ")), true
	case *types.Struct:
		key := g.structKey(t)
		var parts []string
		for i := 0; i < u.NumFields(); i++ {
			f := u.Field(i)
			fv := Val{T: fmt.Sprintf("(%s %s)", g.fieldSel(key, f.Name(), i), v.T), S: g.sortOf(f.Type()), Ty: f.Type()}
			lit, ok := g.goLiteral(file, solver, fv, f.Type(), qual)
			if !ok {
				return "", false
			}
			parts = append(parts, f.Name()+": "+lit)
		}
		return fmt.Sprintf("%s{%s}", ts, strings.Join(parts, ", ")), true
	}
	return "", false
}

func byteSliceLit(b []byte) string {
	var parts []string
	for _, x := range b {
		parts = append(parts, strconv.Itoa(int(x)))
	}
	return "[]byte{" + strings.Join(parts, ", ") + "}"
}

func (g *Gen) modelBytes(file, solver, term string) ([]byte, bool) {
	ls, ok := getValues(file, solver, []string{fmt.Sprintf("(slen %s)", term)})
	if !ok || ls[0] < 0 || ls[0] > 4096 {
		return nil, false
	}
	n := int(ls[0])
	var terms []string
	for i := 0; i < n; i++ {
		terms = append(terms, fmt.Sprintf("(at %s %d)", term, i))
	}
	vs, ok := getValues(file, solver, terms)
	if !ok {
		return nil, false
	}
	b := make([]byte, n)
	for i, v := range vs {
		if v < 0 || v > 255 {
			return nil, false
		}
		b[i] = byte(v)
	}
	return b, true
}

// ---- clause → Go

type goTr struct {
	g      *Gen
	sig    *types.Signature
	params map[string]types.Type
	pkg    *types.Package
	vars   map[string]trVal // bound by pure-function inlining
	depth  int
}

type trVal struct {
	code string
	kind string // int, bool, bytes, err, other
	ty   types.Type
}

func kindOfType(t types.Type) string {
	switch u := types.Unalias(t).Underlying().(type) {
	case *types.Basic:
		switch {
		case u.Info()&types.IsBoolean != 0:
			return "bool"
		case u.Info()&types.IsInteger != 0:
			return "int"
		case u.Info()&types.IsString != 0:
			return "bytes"
		}
	case *types.Slice:
		if isByte(u.Elem()) {
			return "bytes"
		}
	case *types.Array:
		if isByte(u.Elem()) {
			return "bytes"
		}
	case *types.Interface:
		return "err"
	case *types.Pointer:
		return "ptr"
	}
	return "other"
}

func (t *goTr) leaf(code string, ty types.Type) trVal {
	switch kindOfType(ty) {
	case "int":
		return trVal{"int64(" + code + ")", "int", ty}
	case "bool":
		return trVal{code, "bool", ty}
	case "bytes":
		if _, isArr := types.Unalias(ty).Underlying().(*types.Array); isArr {
			return trVal{"govcArr(" + code + "[:])", "bytes", ty}
		}
		return trVal{"[]byte(" + code + ")", "bytes", ty}
	case "err":
		return trVal{code, "err", ty}
	case "ptr":
		return trVal{code, "ptr", ty}
	}
	return trVal{code, "other", ty}
}

func (t *goTr) tr(e *CExpr) (trVal, error) {
	t.depth++
	defer func() { t.depth-- }()
	if t.depth > 60 {
		return trVal{}, fmt.Errorf("too deep")
	}
	switch e.Op {
	case "int":
		return trVal{"int64(" + e.Name + ")", "int", nil}, nil
	case "bool":
		return trVal{e.Name, "bool", nil}, nil
	case "str":
		return trVal{fmt.Sprintf("[]byte(%q)", e.Name), "bytes", nil}, nil
	case "char":
		return trVal{"int64('" + e.Name + "')", "int", nil}, nil
	case "old":
		return t.tr(e.Args[0]) // parameters are passed by value: their entry values are what the test passes
	case "id":
		if v, ok := t.vars[e.Name]; ok {
			return v, nil
		}
		if e.Name == "nil" {
			return trVal{"nil", "nil", nil}, nil
		}
		if ty, ok := t.params[e.Name]; ok {
			return t.leaf("p_"+e.Name, ty), nil
		}
		res := t.sig.Results()
		if e.Name == "ret" && res.Len() == 1 {
			return t.leaf("r0", res.At(0).Type()), nil
		}
		if strings.HasPrefix(e.Name, "ret") {
			if k, err := strconv.Atoi(e.Name[3:]); err == nil && k < res.Len() {
				return t.leaf(fmt.Sprintf("r%d", k), res.At(k).Type()), nil
			}
		}
		for k := 0; k < res.Len(); k++ {
			if res.At(k).Name() == e.Name && e.Name != "" {
				return t.leaf(fmt.Sprintf("r%d", k), res.At(k).Type()), nil
			}
		}
		if pf, ok := t.g.cs.Pures[e.Name]; ok && len(pf.Params) == 0 && pf.Body != nil {
			return t.tr(pf.Body)
		}
		return trVal{}, fmt.Errorf("identifier %s is not a parameter or result", e.Name)
	case "sel":
		x, err := t.tr(e.Args[0])
		if err != nil {
			return trVal{}, err
		}
		if x.ty == nil {
			return trVal{}, fmt.Errorf("selector on untyped value")
		}
		bt := x.ty
		if p, ok := types.Unalias(bt).Underlying().(*types.Pointer); ok {
			bt = p.Elem()
		}
		obj, _, _ := types.LookupFieldOrMethod(bt, true, t.pkg, e.Name)
		f, ok := obj.(*types.Var)
		if !ok {
			return trVal{}, fmt.Errorf("no field %s", e.Name)
		}
		return t.leaf(x.code+"."+e.Name, f.Type()), nil
	case "idx":
		a, err := t.tr(e.Args[0])
		if err != nil {
			return trVal{}, err
		}
		i, err := t.tr(e.Args[1])
		if err != nil {
			return trVal{}, err
		}
		if a.kind != "bytes" || i.kind != "int" {
			return trVal{}, fmt.Errorf("indexing unsupported here")
		}
		return trVal{fmt.Sprintf("govcAt(%s, %s)", a.code, i.code), "int", nil}, nil
	case "slice":
		a, err := t.tr(e.Args[0])
		if err != nil || a.kind != "bytes" {
			return trVal{}, fmt.Errorf("slicing unsupported here")
		}
		lo, hi := "int64(0)", "int64(-1)"
		if e.Args[1] != nil {
			v, err := t.tr(e.Args[1])
			if err != nil {
				return trVal{}, err
			}
			lo = v.code
		}
		if e.Args[2] != nil {
			v, err := t.tr(e.Args[2])
			if err != nil {
				return trVal{}, err
			}
			hi = v.code
		}
		return trVal{fmt.Sprintf("govcSub(%s, %s, %s)", a.code, lo, hi), "bytes", nil}, nil
	case "un":
		x, err := t.tr(e.Args[0])
		if err != nil {
			return trVal{}, err
		}
		switch e.Name {
		case "!":
			return trVal{"!(" + x.code + ")", "bool", nil}, nil
		case "-":
			return trVal{"-(" + x.code + ")", "int", nil}, nil
		case "*":
			if x.kind == "ptr" {
				pt := types.Unalias(x.ty).Underlying().(*types.Pointer)
				return t.leaf("(*"+x.code+")", pt.Elem()), nil
			}
		}
		return trVal{}, fmt.Errorf("unary %s unsupported", e.Name)
	case "bin":
		op := e.Name
		a, err := t.tr(e.Args[0])
		if err != nil {
			return trVal{}, err
		}
		b, err := t.tr(e.Args[1])
		if err != nil {
			return trVal{}, err
		}
		switch op {
		case "==>":
			return trVal{fmt.Sprintf("(!(%s) || (%s))", a.code, b.code), "bool", nil}, nil
		case "<==>":
			return trVal{fmt.Sprintf("((%s) == (%s))", a.code, b.code), "bool", nil}, nil
		case "&&", "||":
			return trVal{fmt.Sprintf("((%s) %s (%s))", a.code, op, b.code), "bool", nil}, nil
		case "==", "!=":
			var c string
			switch {
			case a.kind == "nil" || b.kind == "nil":
				x := a
				if a.kind == "nil" {
					x = b
				}
				if x.kind == "bytes" {
					return trVal{}, fmt.Errorf("nil-ness of byte strings is not modelled")
				}
				c = fmt.Sprintf("(%s == nil)", x.code)
			case a.kind == "bytes" && b.kind == "bytes":
				c = fmt.Sprintf("bytes.Equal(%s, %s)", a.code, b.code)
			case a.kind == b.kind && (a.kind == "int" || a.kind == "bool"):
				c = fmt.Sprintf("(%s == %s)", a.code, b.code)
			case a.kind == "other" && b.kind == "other":
				c = fmt.Sprintf("(%s == %s)", a.code, b.code)
			default:
				return trVal{}, fmt.Errorf("comparison of %s and %s", a.kind, b.kind)
			}
			if op == "!=" {
				c = "!" + c
			}
			return trVal{c, "bool", nil}, nil
		case "<", "<=", ">", ">=":
			if a.kind != "int" || b.kind != "int" {
				return trVal{}, fmt.Errorf("ordering on non-integers")
			}
			return trVal{fmt.Sprintf("(%s %s %s)", a.code, op, b.code), "bool", nil}, nil
		case "+":
			if a.kind == "bytes" && b.kind == "bytes" {
				return trVal{fmt.Sprintf("govcCat(%s, %s)", a.code, b.code), "bytes", nil}, nil
			}
			fallthrough
		case "-", "*":
			if a.kind != "int" || b.kind != "int" {
				return trVal{}, fmt.Errorf("arithmetic on non-integers")
			}
			return trVal{fmt.Sprintf("(%s %s %s)", a.code, op, b.code), "int", nil}, nil
		case "/", "%":
			if a.kind != "int" || b.kind != "int" {
				return trVal{}, fmt.Errorf("arithmetic on non-integers")
			}
			fn := "govcDiv"
			if op == "%" {
				fn = "govcMod"
			}
			return trVal{fmt.Sprintf("%s(%s, %s)", fn, a.code, b.code), "int", nil}, nil
		}
		return trVal{}, fmt.Errorf("operator %s unsupported", op)
	case "call":
		var args []trVal
		ev := func() error {
			for _, a := range e.Args {
				v, err := t.tr(a)
				if err != nil {
					return err
				}
				args = append(args, v)
			}
			return nil
		}
		switch e.Name {
		case "len":
			if err := ev(); err != nil {
				return trVal{}, err
			}
			if len(args) == 1 && args[0].kind == "bytes" {
				return trVal{"int64(len(" + args[0].code + "))", "int", nil}, nil
			}
			return trVal{}, fmt.Errorf("len of non-bytes")
		case "bytes", "string":
			if err := ev(); err != nil {
				return trVal{}, err
			}
			if len(args) == 1 && args[0].kind == "bytes" {
				return args[0], nil
			}
		case "byte1":
			if err := ev(); err != nil {
				return trVal{}, err
			}
			if len(args) == 1 && args[0].kind == "int" {
				return trVal{"[]byte{byte(govcMod(" + args[0].code + ", 256))}", "bytes", nil}, nil
			}
		case "zeros":
			if err := ev(); err != nil {
				return trVal{}, err
			}
			if len(args) == 1 && args[0].kind == "int" {
				return trVal{"make([]byte, " + args[0].code + ")", "bytes", nil}, nil
			}
		case "supd":
			if err := ev(); err != nil {
				return trVal{}, err
			}
			if len(args) == 3 {
				return trVal{fmt.Sprintf("govcUpd(%s, %s, %s)", args[0].code, args[1].code, args[2].code), "bytes", nil}, nil
			}
		case "ite":
			if err := ev(); err != nil {
				return trVal{}, err
			}
			if len(args) == 3 && args[0].kind == "bool" && args[1].kind == args[2].kind {
				return trVal{fmt.Sprintf("govcIte(%s, %s, %s)", args[0].code, args[1].code, args[2].code), args[1].kind, nil}, nil
			}
		case "min", "max":
			if err := ev(); err != nil {
				return trVal{}, err
			}
			if len(args) == 2 && args[0].kind == "int" && args[1].kind == "int" {
				return trVal{fmt.Sprintf("%s(%s, %s)", e.Name, args[0].code, args[1].code), "int", nil}, nil
			}
		}
		if pf, ok := t.g.cs.Pures[e.Name]; ok && pf.Body != nil && len(pf.Params) == len(e.Args) {
			if err := ev(); err != nil {
				return trVal{}, err
			}
			saved := t.vars
			nv := map[string]trVal{}
			for k, v := range saved {
				nv[k] = v
			}
			for i, p := range pf.Params {
				nv[p] = args[i]
			}
			t.vars = nv
			r, err := t.tr(pf.Body)
			t.vars = saved
			return r, err
		}
		return trVal{}, fmt.Errorf("specification function %s has no executable definition", e.Name)
	}
	return trVal{}, fmt.Errorf("%s unsupported in replay", e.Op)
}

const replayHelpers = `
func govcArr(b []byte) []byte { return append([]byte{}, b...) }
func govcAt(b []byte, i int64) int64 { if i < 0 || i >= int64(len(b)) { panic("govc: clause indexes out of range") }; return int64(b[i]) }
func govcSub(b []byte, lo, hi int64) []byte { if hi < 0 { hi = int64(len(b)) }; if lo < 0 || lo > hi || hi > int64(len(b)) { panic("govc: clause slices out of range") }; return b[lo:hi] }
func govcCat(a, b []byte) []byte { return append(append([]byte{}, a...), b...) }
func govcUpd(b []byte, i, v int64) []byte { c := append([]byte{}, b...); if i >= 0 && i < int64(len(c)) { c[i] = byte(v) }; return c }
func govcDiv(a, b int64) int64 { if b == 0 { panic("govc: division by zero in clause") }; q := a / b; if (a%b != 0) && ((a < 0) != (b < 0)) { q-- }; return q }
func govcMod(a, b int64) int64 { if b == 0 { panic("govc: division by zero in clause") }; m := a % b; if m < 0 { if b > 0 { m += b } else { m -= b } }; return m }
func govcIte[T any](c bool, a, b T) T { if c { return a }; return b }
`

// tryReplay: see the file comment. Returns (replayed, description).
func (g *Gen) tryReplay(it oblItem, pid string, rep map[string]any) (bool, string) {
	o, vc := it.o, it.vc
	if g.replaysDone >= 4 {
		return false, "no replay attempted: replay budget of this run used by earlier violations"
	}
	if vc == nil || vc.fn == nil {
		return false, "no replay: not an obligation of a function body"
	}
	if o.Kind != "nopanic" && o.Clause == nil {
		return false, "no replay driver for obligations of kind " + o.Kind
	}
	fn := vc.fn
	for _, p := range vc.params {
		if !isSimpleType(p.Ty, 0) {
			return false, fmt.Sprintf("no replay: parameter %s has a type outside the replayable class (%s)", p.Name, p.Ty)
		}
	}
	how := "model of the refuted obligation"
	if o.Status != "refuted" || o.Aux == "" {
		// No model (the quantified theory makes the solvers answer unknown). Search for a *candidate* input with a
		// weakened, quantifier-free version of the query plus ground facts about the parameters; a candidate proves
		// nothing by itself — only the run on the real code below decides.
		file, solver, ok := g.candidateModel(vc, o)
		if !ok {
			return false, "no failing input found: the solvers gave no model and the quantifier-free candidate search found none"
		}
		o.Aux, o.Solver = file, solver
		how = "candidate from a quantifier-free weakening of the query (confirmed only by the run below)"
	}
	rep["input_source"] = how
	g.replaysDone++
	if fn.Parent() != nil || fn.Signature.Recv() != nil || fn.Pkg == nil {
		return false, "no replay: only package-level functions are replayed"
	}
	if strings.HasPrefix(o.Func, vc.topKey) && o.Func != vc.topKey {
		return false, "no replay: obligation belongs to another function"
	}
	pkg := fn.Pkg.Pkg
	qual := func(p *types.Package) string {
		if p == pkg {
			return ""
		}
		return p.Name()
	}
	imports := map[string]string{}
	var collect func(t types.Type)
	collect = func(t types.Type) {
		switch u := types.Unalias(t).(type) {
		case *types.Named:
			if p := u.Obj().Pkg(); p != nil && p != pkg {
				imports[p.Path()] = p.Name()
			}
			if st, ok := u.Underlying().(*types.Struct); ok {
				for i := 0; i < st.NumFields(); i++ {
					collect(st.Field(i).Type())
				}
			}
		}
	}
	var decls, argNames []string
	ptypes := map[string]types.Type{}
	inputs := map[string]string{}
	for _, p := range vc.params {
		collect(p.Ty)
		lit, ok := g.goLiteral(o.Aux, o.Solver, p.V, p.Ty, qual)
		if !ok {
			return false, "no replay: the solver's model does not give concrete values for parameter " + p.Name
		}
		decls = append(decls, fmt.Sprintf("\tp_%s := %s", p.Name, lit))
		argNames = append(argNames, "p_"+p.Name)
		ptypes[p.Name] = p.Ty
		inputs[p.Name] = lit
	}
	rep["inputs"] = inputs
	res := fn.Signature.Results()
	var rnames []string
	for k := 0; k < res.Len(); k++ {
		rnames = append(rnames, fmt.Sprintf("r%d", k))
	}
	oracle := ""
	if o.Clause != nil && o.Kind != "nopanic" {
		tr := &goTr{g: g, sig: fn.Signature, params: ptypes, pkg: pkg, vars: map[string]trVal{}}
		v, err := tr.tr(o.Clause.Expr)
		if err != nil || v.kind != "bool" {
			return false, fmt.Sprintf("no replay: the clause cannot be evaluated on the real results (%v)", err)
		}
		oracle = fmt.Sprintf("\t\tif !(%s) {\n\t\t\tfmt.Println(\"GOVC-REPLAY-CLAUSE-VIOLATED\")\n\t\t}\n", v.code)
	}
	var src bytes.Buffer
	fmt.Fprintf(&src, "package %s\n\nimport (\n\t\"bytes\"\n\t\"fmt\"\n\t\"testing\"\n", pkg.Name())
	for path, name := range imports {
		fmt.Fprintf(&src, "\t%s %q\n", name, path)
	}
	fmt.Fprintf(&src, ")\n\nvar _ = bytes.Equal\n%s\n", replayHelpers)
	fmt.Fprintf(&src, "func TestGovcReplay(t *testing.T) {\n%s\n\tfunc() {\n\t\tdefer func() {\n\t\t\tif r := recover(); r != nil {\n\t\t\t\tfmt.Printf(\"GOVC-REPLAY-PANIC: %%v\\n\", r)\n\t\t\t}\n\t\t}()\n", strings.Join(decls, "\n"))
	call := fmt.Sprintf("%s(%s)", fn.Name(), strings.Join(argNames, ", "))
	if len(rnames) > 0 {
		fmt.Fprintf(&src, "\t\t%s := %s\n", strings.Join(rnames, ", "), call)
		for _, r := range rnames {
			fmt.Fprintf(&src, "\t\t_ = %s\n", r)
		}
	} else {
		fmt.Fprintf(&src, "\t\t%s\n", call)
	}
	fmt.Fprintf(&src, "\t\tfmt.Println(\"GOVC-REPLAY-RETURNED\")\n%s\t}()\n}\n", oracle)
	rep["generated_test"] = src.String()

	// inject with -overlay: nothing is written into the repository
	pos := g.prog.Fset.Position(fn.Pos())
	dir := filepath.Dir(pos.Filename)
	work, err := os.MkdirTemp("", "govc-replay.")
	if err != nil {
		return false, "no replay: " + err.Error()
	}
	defer os.RemoveAll(work)
	tf := filepath.Join(work, "zz_govc_replay_test.go")
	os.WriteFile(tf, src.Bytes(), 0o644)
	ov, _ := json.Marshal(map[string]any{"Replace": map[string]string{filepath.Join(dir, "zz_govc_replay_test.go"): tf}})
	ovf := filepath.Join(work, "overlay.json")
	os.WriteFile(ovf, ov, 0o644)
	ctx, cancel := context.WithTimeout(context.Background(), 240*time.Second)
	defer cancel()
	cmd := exec.CommandContext(ctx, "go", "test", "-overlay", ovf, "-vet=off", "-count=1", "-timeout", "60s", "-run", "^TestGovcReplay$", "-v", ".")
	cmd.Dir = dir
	cmd.Env = append(os.Environ(), "GOFLAGS=-mod=readonly", "GOPROXY=off", "GOSUMDB=off", "GOTOOLCHAIN=local")
	tc := os.Getenv("GOVC_REPO_GO")
	if tc == "" {
		if _, err := os.Stat("/opt/veriftools/go1.26.8/bin/go"); err == nil {
			tc = "/opt/veriftools/go1.26.8/bin" // a toolchain new enough for the repository's go.mod, used with GOTOOLCHAIN=local
		}
	}
	if tc != "" {
		cmd.Env = append(cmd.Env, "PATH="+tc+":"+os.Getenv("PATH"))
		cmd.Path = filepath.Join(tc, "go")
	}
	outb, _ := cmd.CombinedOutput()
	out := string(outb)
	rep["test_output"] = truncate(out, 4000)
	switch {
	case o.Kind == "nopanic" && strings.Contains(out, "GOVC-REPLAY-PANIC"):
		return true, "replayed: the real function panics on the model's input"
	case o.Kind != "nopanic" && strings.Contains(out, "GOVC-REPLAY-CLAUSE-VIOLATED"):
		return true, "replayed: the real function's result violates the clause on the model's input"
	case strings.Contains(out, "GOVC-REPLAY-RETURNED") || strings.Contains(out, "GOVC-REPLAY-PANIC"):
		return false, "the model's input does not show the failure on the real code (model over abstracted values, or a contract weaker than the code)"
	}
	return false, "replay test could not be run: " + truncate(out, 300)
}

// candidateModel: satisfiable quantifier-free weakening of an obligation's query, with ground facts for the parameters.
func (g *Gen) candidateModel(vc *VC, o *Obligation) (string, string, bool) {
	q := queryText(vc, o)
	// for the search only, byte strings are concrete (length, array) pairs so that reads, slices and concatenations of
	// the parameters constrain the parameters' bytes (z3 array lambdas); the proof queries never use this
	q = strings.Replace(q, abstractStrDecls, concreteStrDecls, 1)
	var b strings.Builder
	lines := strings.Split(q, "\n")
	tail := ""
	for _, l := range lines {
		t := strings.TrimSpace(l)
		if strings.Contains(t, "(forall") || strings.Contains(t, "(exists") {
			continue
		}
		if t == "(check-sat)" {
			tail = t
			continue
		}
		b.WriteString(l)
		b.WriteByte('\n')
	}
	var ground func(v Val, t types.Type, depth int)
	ground = func(v Val, t types.Type, depth int) {
		if depth > 3 {
			return
		}
		switch u := types.Unalias(t).Underlying().(type) {
		case *types.Basic:
			if u.Info()&types.IsString != 0 {
				fmt.Fprintf(&b, "(assert (and (<= 0 (slen %s)) (<= (slen %s) 96)))\n", v.T, v.T)
				for i := 0; i < 96; i++ {
					fmt.Fprintf(&b, "(assert (and (<= 0 (at %s %d)) (<= (at %s %d) 255)))\n", v.T, i, v.T, i)
				}
			}
		case *types.Slice, *types.Array:
			fmt.Fprintf(&b, "(assert (and (<= 0 (slen %s)) (<= (slen %s) 96)))\n", v.T, v.T)
			for i := 0; i < 96; i++ {
				fmt.Fprintf(&b, "(assert (and (<= 0 (at %s %d)) (<= (at %s %d) 255)))\n", v.T, i, v.T, i)
			}
		case *types.Struct:
			key := g.structKey(t)
			for i := 0; i < u.NumFields(); i++ {
				f := u.Field(i)
				ground(Val{T: fmt.Sprintf("(%s %s)", g.fieldSel(key, f.Name(), i), v.T), S: g.sortOf(f.Type()), Ty: f.Type()}, f.Type(), depth+1)
			}
		}
	}
	for _, p := range vc.params {
		ground(p.V, p.Ty, 0)
	}
	b.WriteString(tail + "\n")
	dir := os.TempDir()
	if o.Aux != "" {
		dir = filepath.Dir(o.Aux)
	}
	f, err := os.CreateTemp(dir, "cand*.smt2")
	if err != nil {
		return "", "", false
	}
	f.WriteString(b.String())
	f.Close()
	for _, sp := range solvers[:2] {
		r := runOne(context.Background(), sp, f.Name(), 8)
		if r.answer == "sat" {
			return f.Name(), sp.name, true
		}
		if os.Getenv("GOVC_DEBUG") != "" {
			fmt.Fprintf(os.Stderr, "candidate search %s %s: %s %s\n", o.Name, sp.name, r.answer, truncate(r.out, 300))
		}
	}
	if os.Getenv("GOVC_KEEP") == "" {
		os.Remove(f.Name())
	} else {
		fmt.Fprintf(os.Stderr, "candidate query kept: %s\n", f.Name())
	}
	return "", "", false
}

const abstractStrDecls = `(declare-sort Str 0)
(declare-fun slen (Str) Int)
(declare-fun at (Str Int) Int)
(declare-fun cat (Str Str) Str)
(declare-fun sub (Str Int Int) Str)
(declare-fun zeros (Int) Str)
(declare-fun supd (Str Int Int) Str)
(declare-fun byte1 (Int) Str)
(declare-fun litid (Str) Int)
(declare-const empty$ Str)
`

const concreteStrDecls = `(define-sort Str () (Seq Int))
(define-fun slen ((s Str)) Int (seq.len s))
(define-fun at ((s Str) (i Int)) Int (seq.nth s i))
(define-fun cat ((a Str) (b Str)) Str (seq.++ a b))
(define-fun sub ((s Str) (lo Int) (hi Int)) Str (seq.extract s lo (- hi lo)))
(declare-fun zeros (Int) Str)
(define-fun supd ((s Str) (i Int) (v Int)) Str (seq.++ (seq.extract s 0 i) (seq.unit v) (seq.extract s (+ i 1) (- (seq.len s) (+ i 1)))))
(define-fun byte1 ((v Int)) Str (seq.unit (mod v 256)))
(declare-fun litid (Str) Int)
(define-fun empty$ () Str (as seq.empty Str))
`

var _ = ssa.Value(nil)
