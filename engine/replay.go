package main

// Replay of refuting models against the real code (drivers are added per property).

func (g *Gen) tryReplay(o *Obligation, pid string, rep map[string]any) (bool, string) {
	return false, "no replay driver for this obligation kind; the model is over the generator's symbolic values"
}
