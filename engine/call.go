package main

import (
	"fmt"
	"go/constant"
	"go/types"
	"os"
	"strings"

	"golang.org/x/tools/go/ssa"
)

// calleeKey identifies the callee of a call instruction.
func (g *Gen) calleeInfo(fr *Frame, c *ssa.CallCommon) (key string, fn *ssa.Function, clo *Closure, sig *types.Signature, recv *Val) {
	sig = c.Signature()
	if c.IsInvoke() {
		rv := fr.val(c.Value)
		recv = &rv
		rt := types.Unalias(c.Value.Type())
		tn := typeShortName(rt)
		pk := ""
		if n, ok := rt.(*types.Named); ok && n.Obj().Pkg() != nil {
			pk = pkgName(n.Obj().Pkg())
		} else if c.Method.Pkg() != nil {
			pk = pkgName(c.Method.Pkg())
		}
		if _, ok := rt.(*types.Named); !ok {
			// anonymous interface: key on the method name
			tn = "interface"
		}
		key = fmt.Sprintf("%s.%s.%s", pk, tn, c.Method.Name())
		// if the receiver's dynamic value is statically a known concrete pointer type we still use the interface contract
		return
	}
	if f := c.StaticCallee(); f != nil {
		key = keyOfSSAFunc(f)
		fn = f
		if mc, ok := c.Value.(*ssa.MakeClosure); ok {
			v := fr.val(mc)
			clo = v.Clo
		}
		return
	}
	if b, ok := c.Value.(*ssa.Builtin); ok {
		key = "builtin." + b.Name()
		return
	}
	v := fr.val(c.Value)
	if v.Clo != nil {
		clo = v.Clo
		fn = v.Clo.Fn
		key = keyOfSSAFunc(fn)
		return
	}
	key = "dynamic"
	if p, ok := c.Value.(*ssa.Parameter); ok {
		k := keyOfSSAFunc(fr.fn) + "#param." + p.Name()
		if g.lookupContract(k) != nil {
			key = k
		}
	}
	// a captured function variable (e.g. the yield function of an iterator body): contract keyed on the capturing function
	if u, ok := c.Value.(*ssa.UnOp); ok {
		if fv, ok := u.X.(*ssa.FreeVar); ok {
			k := keyOfSSAFunc(fr.fn) + "#free." + fv.Name()
			if g.lookupContract(k) != nil {
				key = k
			}
		}
	}
	// a package-level function variable (e.g. var timeNow = func() ...): contract keyed on the variable
	if u, ok := c.Value.(*ssa.UnOp); ok {
		if gl, ok := u.X.(*ssa.Global); ok {
			k := pkgName(gl.Pkg.Pkg) + "." + gl.Name()
			if g.lookupContract(k) != nil {
				key = k
			}
		}
	}
	// a function value returned by a call to a module function (e.g. the wait function addLeafToPool hands back):
	// contract keyed on the producing function and the result position
	if key == "dynamic" {
		var call *ssa.Call
		idx := 0
		switch x := c.Value.(type) {
		case *ssa.Extract:
			if cc, ok := x.Tuple.(*ssa.Call); ok {
				call, idx = cc, x.Index
			}
		case *ssa.Call:
			call = x
		}
		if os.Getenv("GOVC_DEBUG_KEY") != "" {
			fmt.Fprintf(os.Stderr, "dynamic callee value %T %v call=%v\n", c.Value, c.Value, call != nil)
		}
		if call != nil {
			if f := call.Common().StaticCallee(); f != nil {
				k := fmt.Sprintf("%s#ret%d", keyOfSSAFunc(f), idx)
				if os.Getenv("GOVC_DEBUG_KEY") != "" {
					fmt.Fprintf(os.Stderr, "  returned-func key %q contract=%v\n", k, g.lookupContract(k) != nil)
				}
				if g.lookupContract(k) != nil {
					key = k
				}
			}
		}
	}
	// a function value read out of a map/slice held in a struct field: contract keyed on the field
	if key == "dynamic" {
		if k := fieldElemOrigin(c.Value, 0); k != "" && g.lookupContract(k) != nil {
			key = k
		}
	}
	// a function value produced by external code (e.g. the cancel func of context.WithTimeout) can only
	// touch memory external code could reach: treated like an external call without contract
	if key == "dynamic" && g.externalFuncValue(c.Value, 0) {
		key = "dynamic-external"
	}
	return
}

func (g *Gen) call(fr *Frame, st *State, site ssa.Instruction, c *ssa.CallCommon, r string) Val {
	key, fn, clo, sig, recv := g.calleeInfo(fr, c)
	var args []Val
	if recv != nil {
		args = append(args, *recv)
	}
	for _, a := range c.Args {
		args = append(args, fr.val(a))
	}
	resT := sig.Results()
	mkRes := func(vs []Val) Val {
		switch resT.Len() {
		case 0:
			return Val{S: "Tuple", Ty: resT}
		case 1:
			if len(vs) >= 1 {
				return vs[0]
			}
			return g.freshVal(fr.id+"res", resT.At(0).Type())
		}
		if len(vs) == resT.Len() {
			return Val{S: "Tuple", Ty: resT, Tup: vs}
		}
		return g.freshVal(fr.id+"res", resT)
	}
	if strings.HasPrefix(key, "builtin.") {
		return g.builtin(fr, st, site, c, strings.TrimPrefix(key, "builtin."), args, r)
	}
	if g.inInit && fn != nil && (fn.Name() == "init" || strings.HasPrefix(fn.Name(), "init#")) {
		return Val{S: "Tuple", Ty: resT} // initializers of imported packages do not touch this package's variables
	}
	fr.callIdx[key]++
	ord := fr.callIdx[key]

	// special forms
	if v, ok := g.specialCall(fr, st, site, c, key, args, r); ok {
		g.callSiteClauses(fr, st, site, c, key, ord, args, nil, sig, fn, r)
		return v
	}

	fc := g.lookupContract(key)
	if fc != nil && !(fc.Inline && fn != nil) {
		fc.Used = true
		penv := g.bindParams(fr, st, fc, key, fn, sig, args, c.IsInvoke())
		g.callSiteClauses(fr, st, site, c, key, ord, args, penv, sig, fn, r)
		var calleeWS *writeSet
		if fn != nil && len(fn.Blocks) > 0 && g.isRepoPkg(pkgOfFn(fn)) && !fc.Assumed {
			// frame of a verified callee: what its body (and everything it calls) can write, found by a dry run
			calleeWS = g.dryCallee(fr, st, fn, clo, c, args, key)
		}
		g.pendingCalleeWS = calleeWS
		res := g.applyContract(fr, st, site, fc, key, ord, penv, resT, args, r)
		g.callBinds(fr, st, site, c, key, penv, res)
		// function values of the module itself (parameters, returned closures, stored callbacks: keys with '#') may
		// return the module's own sentinel errors
		if (fc.Assumed && !strings.Contains(key, "#") && (fn == nil || !g.isRepoPkg(pkgOfFn(fn)))) || (fn != nil && g.otherPackage(fr, fn)) {
			g.externalErrorFacts(fr, st, res, resT)
		}
		return mkRes(res)
	}
	g.callSiteClauses(fr, st, site, c, key, ord, args, nil, sig, fn, r)

	// inline in-module callees (and statically known closures)
	if fn != nil && len(fn.Blocks) > 0 && (g.isRepoPkg(pkgOfFn(fn)) || g.inlineExt[key]) && fr.depth < g.maxInline && !fr.onStack(fn) {
		cf := g.newFrame(fn, fr)
		if clo != nil {
			cf.free = clo.Bindings
		} else if len(fn.FreeVars) > 0 {
			if v := fr.val(c.Value); v.Clo != nil {
				cf.free = v.Clo.Bindings
			}
		}
		for i, p := range fn.Params {
			if i < len(args) {
				a := args[i]
				a.Ty = p.Type()
				cf.vals[p] = a
				cf.params[p.Name()] = a
			}
		}
		stIn := st
		for i, p := range fn.Params {
			if i < len(args) && p.Object() != nil {
				stIn.src[p.Object()] = args[i]
				stIn.srcAddr[p.Object()] = false
			}
		}
		g.vc.note("inlined", key+" into "+fr.topKey())
		res, stOut, exitG := g.execFunc(cf, stIn, r)
		*st = *stOut
		// paths on which the callee does not return (panic / no return) end here
		if exitG != "false" {
			g.vc.assume(r, exitG)
		} else {
			g.vc.assume("", sNot(r))
		}
		fr.panics = append(fr.panics, cf.panics...)
		return mkRes(res)
	}

	// unknown callee: havoc
	if key == "dynamic" || (fn != nil && len(fn.Blocks) > 0 && g.isRepoPkg(pkgOfFn(fn))) {
		g.vc.note("havoc-all", fmt.Sprintf("call to %s in %s (dynamic or too deep)", describeCall(c), fr.topKey()))
		g.havocAll(st)
	} else {
		g.vc.note("havocked-call", key)
		g.escapeArgs(fr, st, c)
	}
	var fresh []Val
	for i := 0; i < resT.Len(); i++ {
		fresh = append(fresh, g.freshVal(fr.id+"call_"+lastPart(key), resT.At(i).Type()))
	}
	if fn == nil || !g.isRepoPkg(pkgOfFn(fn)) {
		g.externalErrorFacts(fr, st, fresh, resT)
	}
	return mkRes(fresh)
}

func pkgOfFn(fn *ssa.Function) *types.Package {
	for f := fn; f != nil; f = f.Parent() {
		if f.Pkg != nil {
			return f.Pkg.Pkg
		}
		if f.Origin() != nil && f.Origin().Pkg != nil {
			return f.Origin().Pkg.Pkg
		}
	}
	return nil
}

func lastPart(s string) string {
	if i := strings.LastIndex(s, "."); i >= 0 {
		return s[i+1:]
	}
	return s
}

func describeCall(c *ssa.CallCommon) string {
	return c.Value.String()
}

func (g *Gen) lookupContract(key string) *FuncContract {
	if fc, ok := g.cs.Funcs[key]; ok {
		return fc
	}
	return nil
}

// havocAll: an unknown function value may touch any repo memory and any escaped local.
func (g *Gen) havocAll(st *State) {
	for _, k := range sortedKeys(st.heaps) {
		g.setHeap(st, k, st.hsort[k], g.vc.freshConst("Hh$"+k, st.hsort[k]), "")
	}
	for _, k := range sortedKeysB(st.escaped) {
		if old, ok := st.cells[k]; ok {
			nv := Val{T: g.vc.freshConst("ch$"+k, old.S), S: old.S, Ty: old.Ty}
			g.setCell(st, k, nv)
		}
	}
	for _, k := range sortedKeys(st.cells) {
		if strings.HasPrefix(k, "ghost$") {
			continue
		}
	}
}

// escapeArgs: an external callee without contract may write through pointer arguments and call closure arguments.
func (g *Gen) escapeArgs(fr *Frame, st *State, c *ssa.CallCommon) {
	var vals []Val
	if c.IsInvoke() {
		vals = append(vals, fr.val(c.Value))
	}
	for _, a := range c.Args {
		vals = append(vals, fr.val(a))
	}
	for _, v := range vals {
		g.escapeVal(st, v, 0)
	}
	// a pointer to a module struct with function-typed fields: the callee may invoke the closures stored there
	for _, v := range vals {
		var stt *types.Struct
		if v.Ptr != nil && v.Ptr.Kind == pField && len(v.Ptr.Path) == 0 && v.Ptr.Ty != nil {
			stt, _ = types.Unalias(v.Ptr.Ty).Underlying().(*types.Struct)
		}
		if stt == nil && v.Ty != nil {
			if pt, ok := types.Unalias(v.Ty).Underlying().(*types.Pointer); ok {
				stt, _ = pt.Elem().Underlying().(*types.Struct)
			}
		}
		if stt == nil {
			continue
		}
		hasFunc := false
		for i := 0; i < stt.NumFields(); i++ {
			if _, ok := stt.Field(i).Type().Underlying().(*types.Signature); ok {
				hasFunc = true
			}
		}
		if !hasFunc {
			continue
		}
		for f := fr; f != nil; f = f.parent {
			for _, clo := range f.closures {
				g.havocCaptured(st, clo)
			}
		}
	}
}

// havocCaptured: everything a closure captured may have been modified by running it.
func (g *Gen) havocCaptured(st *State, clo *Closure) {
	// which captured variables does the closure body assign, and which captured maps does it update?
	assigns := map[int]bool{}
	mutates := map[int]bool{}
	fvIndex := func(v ssa.Value) int {
		for i, fv := range clo.Fn.FreeVars {
			if v == ssa.Value(fv) {
				return i
			}
		}
		return -1
	}
	for _, b := range clo.Fn.Blocks {
		for _, in := range b.Instrs {
			switch x := in.(type) {
			case *ssa.Store:
				if i := fvIndex(x.Addr); i >= 0 {
					assigns[i] = true
				}
				// stores through pointers derived from a captured variable (fields, elements)
				switch a := x.Addr.(type) {
				case *ssa.FieldAddr:
					if u, ok := a.X.(*ssa.UnOp); ok {
						if i := fvIndex(u.X); i >= 0 {
							mutates[i] = true
						}
					}
				case *ssa.IndexAddr:
					if u, ok := a.X.(*ssa.UnOp); ok {
						if i := fvIndex(u.X); i >= 0 {
							mutates[i] = true
						}
					}
				}
			case *ssa.MapUpdate:
				if u, ok := x.Map.(*ssa.UnOp); ok {
					if i := fvIndex(u.X); i >= 0 {
						mutates[i] = true
					}
				}
			case ssa.CallInstruction:
				// calls inside the closure may do anything to what it captured
				for _, a := range x.Common().Args {
					if i := fvIndex(a); i >= 0 {
						assigns[i] = true
					}
				}
			}
		}
	}
	if len(clo.Fn.AnonFuncs) > 0 {
		for i := range clo.Bindings {
			assigns[i], mutates[i] = true, true
		}
	}
	for bi, b := range clo.Bindings {
		if b.Ptr == nil || b.Ptr.Kind != pCell {
			continue
		}
		if !assigns[bi] && !mutates[bi] {
			continue
		}
		cur, ok := st.cells[b.Ptr.Cell]
		if !ok {
			continue
		}
		if cur.Ty != nil && !assigns[bi] {
			if mt, ok := types.Unalias(cur.Ty).Underlying().(*types.Map); ok {
				// the map object's contents
				dn, ds, vn, vs := g.mapHeaps(mt)
				ks, es := g.sortOf(mt.Key()), g.sortOf(mt.Elem())
				dh := g.heapTerm(st, dn, ds)
				vh := g.heapTerm(st, vn, vs)
				g.setHeap(st, dn, ds, fmt.Sprintf("(store %s %s %s)", dh, cur.T, g.vc.freshConst("mdh", "(Array "+ks+" Bool)")), cur.T)
				if es != "Tuple" {
					g.setHeap(st, vn, vs, fmt.Sprintf("(store %s %s %s)", vh, cur.T, g.vc.freshConst("mvh", "(Array "+ks+" "+es+")")), cur.T)
				}
				lh := g.heapTerm(st, g.mlenHeap(mt), "(Array Int Int)")
				g.setHeap(st, g.mlenHeap(mt), "(Array Int Int)", fmt.Sprintf("(store %s %s %s)", lh, cur.T, g.vc.freshConst("mlh", "Int")), cur.T)
				continue
			}
		}
		if cur.Ty != nil && !assigns[bi] && cur.S == "Slice" {
			if sl, ok := types.Unalias(cur.Ty).Underlying().(*types.Slice); ok {
				// the closure only stores into elements: the slice keeps its identity, its backing array's contents change
				srt := g.sortOf(sl.Elem())
				name := "HA$" + srt
				hs := "(Array Int (Array Int " + srt + "))"
				h := g.heapTerm(st, name, hs)
				arr := fmt.Sprintf("(sarr %s)", cur.T)
				g.setHeap(st, name, hs, fmt.Sprintf("(store %s %s %s)", h, arr, g.vc.freshConst("hva", "(Array Int "+srt+")")), arr)
				continue
			}
		}
		g.setCell(st, b.Ptr.Cell, Val{T: g.vc.freshConst("esc", cur.S), S: cur.S, Ty: cur.Ty})
	}
}

func (g *Gen) escapeVal(st *State, v Val, depth int) {
	if depth > 2 {
		return
	}
	for _, e := range v.Elems {
		g.escapeVal(st, e, depth+1)
	}
	if v.Clo != nil {
		// code that receives a closure can affect the captured variables only by invoking it: havoc what its body writes
		g.havocCaptured(st, v.Clo)
		return
	}
	if v.Ptr != nil {
		g.havocPtr(st, v.Ptr)
		return
	}
	if v.Ty != nil {
		if _, ok := types.Unalias(v.Ty).Underlying().(*types.Pointer); ok {
			if p := g.ptrOf(v); p != nil {
				g.havocPtr(st, p)
			}
		}
	}
}

func (g *Gen) havocPtr(st *State, p *Ptr) {
	switch p.Kind {
	case pCell:
		if old, ok := st.cells[p.Cell]; ok {
			nv := g.freshVal("hv", p.Ty)
			if nv.S != old.S {
				nv = Val{T: g.vc.freshConst("hv", old.S), S: old.S, Ty: old.Ty}
			}
			g.setCell(st, p.Cell, nv)
		}
		st.escaped[p.Cell] = true
	case pField:
		if _, ok := types.Unalias(p.Ty).Underlying().(*types.Struct); ok {
			var paths [][]string
			var tys []types.Type
			g.leafPaths(p.Ty, nil, &paths, &tys)
			for i, pa := range paths {
				full := append(append([]string{}, p.Path...), pa...)
				name := heapName(p.Struct, full)
				if _, exists := st.heaps[name]; !exists {
					continue
				}
				g.storePtr(st, &Ptr{Kind: pField, Base: p.Base, Struct: p.Struct, Path: full, Ty: tys[i]}, g.freshVal("hv", tys[i]))
			}
			return
		}
		g.storePtr(st, p, g.freshVal("hv", p.Ty))
	case pElem:
		if p.Slots != nil {
			for i := range *p.Slots {
				(*p.Slots)[i] = Val{}
			}
		}
		srt := g.sortOf(p.Ty)
		name := "HA$" + srt
		hs := "(Array Int (Array Int " + srt + "))"
		h := g.heapTerm(st, name, hs)
		g.setHeap(st, name, hs, fmt.Sprintf("(store %s %s %s)", h, p.Arr, g.vc.freshConst("hva", "(Array Int "+srt+")")), p.Arr)
	}
}

// bindParams builds the contract-evaluation environment for a call: parameter names -> argument values.
func (g *Gen) bindParams(fr *Frame, st *State, fc *FuncContract, key string, fn *ssa.Function, sig *types.Signature, args []Val, invoke bool) map[string]Val {
	vars := map[string]Val{}
	var names []string
	if fn != nil && len(fn.Params) == len(args) {
		for _, p := range fn.Params {
			names = append(names, p.Name())
		}
	} else {
		if invoke || sig.Recv() != nil {
			rn := "recv"
			if sig.Recv() != nil && sig.Recv().Name() != "" && sig.Recv().Name() != "_" {
				rn = sig.Recv().Name()
			}
			if len(args) == sig.Params().Len()+1 {
				names = append(names, rn)
			}
		}
		for i := 0; i < sig.Params().Len(); i++ {
			names = append(names, sig.Params().At(i).Name())
		}
	}
	for i, a := range args {
		vars[fmt.Sprintf("arg%d", i)] = a
		if i < len(names) && names[i] != "" && names[i] != "_" {
			vars[names[i]] = a
		}
	}
	if len(args) > 0 && (invoke || (fn != nil && fn.Signature.Recv() != nil)) {
		vars["recv"] = args[0]
	}
	for k, v := range vars {
		if !strings.HasPrefix(k, "c_") {
			if _, ok := vars["c_"+k]; !ok {
				defer func(k string, v Val) { vars["c_"+k] = v }(k, v)
			}
		}
	}
	if fc != nil && len(fc.Params) > 0 {
		off := 0
		if len(fc.Params) < len(args) {
			off = len(args) - len(fc.Params) // explicit params skip the receiver
		}
		for i, n := range fc.Params {
			if i+off < len(args) && n != "_" {
				vars[n] = args[i+off]
				vars["c_"+n] = args[i+off]
			}
		}
	}
	return vars
}

// applyContract: check requires, havoc modifies, assume ensures. Returns result values.
func (g *Gen) applyContract(fr *Frame, st *State, site ssa.Instruction, fc *FuncContract, key string, ord int, vars map[string]Val, resT *types.Tuple, args []Val, r string) []Val {
	env := g.envFor(fr, st)
	env.useSrc = false
	env.vars = vars
	if p := g.contractPkg(fc); p != nil {
		env.pkg = p
	}
	siteName := fmt.Sprintf("%s.call[%s#%d]", fr.topKey(), key, ord)
	for _, rq := range fc.Requires {
		v, err := g.evalBool(rq.Expr, env)
		if err != nil {
			g.contractError(rq, fmt.Errorf("at %s: %v", siteName, err))
			continue
		}
		g.addObligation(&Obligation{Name: siteName + ".requires." + rq.Name, Func: fr.topKey(), Kind: "requires", Props: rq.Props,
			Guard: r, Goal: v, Src: rq.Src, Pos: g.posOf(site)})
		g.vc.assume(r, v)
	}
	for _, rq := range fc.PanicUnless {
		v, err := g.evalBool(rq.Expr, env)
		if err != nil {
			g.contractError(rq, fmt.Errorf("at %s: %v", siteName, err))
			continue
		}
		if fr.noPanic {
			g.addObligation(&Obligation{Name: siteName + ".nopanic." + rq.Name, Func: fr.topKey(), Kind: "nopanic", Props: rq.Props,
				Guard: r, Goal: v, Src: rq.Src, Pos: g.posOf(site)})
		}
		g.vc.assume(r, v)
	}
	pre := st.Clone()
	// fresh / invoke steps (assumed higher-order functions)
	for _, stp := range fc.Steps {
		switch stp.Kind {
		case "fresh":
			_, ty, err := g.sortOfTypeName(stp.Type, env.pkg)
			if err != nil || ty == nil {
				g.contractError(&Clause{Name: "fresh", Src: stp.Type, File: stp.File, Line: stp.Line}, fmt.Errorf("bad type %s", stp.Type))
				continue
			}
			var v Val
			if pt, ok := ty.Underlying().(*types.Pointer); ok {
				ref := g.newRef(fr.id + "fresh_" + stp.Name)
				v = Val{T: ref, S: "Int", Ty: ty}
				g.zeroObject(st, ref, pt.Elem())
			} else {
				v = g.freshVal(fr.id+"fresh_"+stp.Name, ty) // an arbitrary value of a non-pointer type
			}
			vars[stp.Name] = v
			env.vars = vars
		case "invoke":
			fv, ok := vars[stp.Name]
			if !ok || fv.Clo == nil {
				g.vc.note("havoc-all", fmt.Sprintf("invoke of unknown function value %s at %s", stp.Name, siteName))
				g.havocAll(st)
				continue
			}
			var as []Val
			bad := false
			for _, a := range stp.Args {
				av, err := g.eval(a, env)
				if err != nil {
					g.contractError(&Clause{Name: "invoke", Src: stp.Src, File: stp.File, Line: stp.Line}, err)
					bad = true
					break
				}
				as = append(as, av)
			}
			if bad {
				continue
			}
			guard := r
			var cond string
			if stp.When != nil {
				c, err := g.evalBool(stp.When, env)
				if err != nil {
					g.contractError(&Clause{Name: "invoke", Src: stp.Src, File: stp.File, Line: stp.Line}, err)
					continue
				}
				cond = c
				guard = g.vc.define(fr.id+"ig", "Bool", sAnd(r, c))
			}
			if stp.Star {
				g.invokeStar(fr, st, site, key, fv.Clo, as, r, guard)
				continue
			}
			branch := st
			if cond != "" {
				branch = st.Clone()
			}
			ires := g.invokeClosure(fr, branch, fv.Clo, as, guard)
			if stp.As != "" && cond == "" && len(ires) > 0 {
				vars[stp.As] = ires[0]
				env.vars = vars
			}
			if cond != "" {
				merged := g.merge([]*State{branch, st}, []string{cond, sNot(cond)})
				*st = *merged
			}
		}
	}
	// havoc
	if ws := g.pendingCalleeWS; ws != nil {
		g.pendingCalleeWS = nil
		g.havocWriteSet(fr, st, ws)
	}
	if fc.Escapes {
		if ci, ok := site.(ssa.CallInstruction); ok {
			g.escapeArgs(fr, st, ci.Common())
		}
	}
	for i, m := range fc.Modifies {
		if m.Op == "id" && m.Name == "everything" {
			g.havocAll(st)
			continue
		}
		p, err := g.place(m, env)
		if err != nil {
			g.contractError(&Clause{Name: "modifies", Src: fc.ModSrc[i], File: fc.File, Line: fc.Line}, fmt.Errorf("at %s: %v", siteName, err))
			continue
		}
		g.havocPlace(st, p)
	}
	// results
	var res []Val
	rvars := map[string]Val{}
	for k, v := range vars {
		rvars[k] = v
	}
	for i := 0; i < resT.Len(); i++ {
		rv := g.freshVal(fr.id+"r_"+lastPart(key), resT.At(i).Type())
		res = append(res, rv)
		rvars[fmt.Sprintf("ret%d", i)] = rv
		if n := resT.At(i).Name(); n != "" && n != "_" {
			if _, clash := rvars[n]; !clash {
				rvars[n] = rv
			}
		}
	}
	if len(res) == 1 {
		rvars["ret"] = res[0]
	}
	penv := *env
	penv.vars = rvars
	penv.old = pre
	penv.st = st
	g.assumingFresh = fc.Assumed
	defer func() { g.assumingFresh = false }()
	for _, en := range append(append([]*Clause{}, fc.Ensures...), fc.Defines...) {
		v, err := g.evalBool(en.Expr, &penv)
		if err != nil {
			g.contractError(en, fmt.Errorf("at %s: %v", siteName, err))
			continue
		}
		g.vc.assume(r, v)
	}
	return res
}

func (g *Gen) havocPlace(st *State, p *Ptr) {
	if gt, ok := p.Ty.(ghostType); ok && p.Kind == pCell {
		g.setCell(st, p.Cell, Val{T: g.vc.freshConst("gh", gt.srt), S: gt.srt, Ty: gt.ty})
		return
	}
	switch p.Kind {
	case pCell, pGlobal:
		g.setCell(st, p.Cell, g.freshVal("hv", p.Ty))
	default:
		if _, ok := types.Unalias(p.Ty).Underlying().(*types.Struct); ok {
			var paths [][]string
			var tys []types.Type
			g.leafPaths(p.Ty, nil, &paths, &tys)
			for i, pa := range paths {
				full := append(append([]string{}, p.Path...), pa...)
				g.storePtr(st, &Ptr{Kind: pField, Base: p.Base, Struct: p.Struct, Path: full, Ty: tys[i]}, g.freshVal("hv", tys[i]))
			}
			return
		}
		g.storePtr(st, p, g.freshVal("hv", p.Ty))
	}
}

func (g *Gen) contractPkg(fc *FuncContract) *types.Package {
	// the package named by the first component of the key, if it is a repo package
	if i := strings.Index(fc.Key, "."); i > 0 {
		if sp, ok := g.byName[fc.Key[:i]]; ok {
			return sp.Pkg
		}
		if p := g.findImported(fc.Key[:i]); p != nil {
			return p
		}
	}
	return nil
}

func (g *Gen) posOf(in ssa.Instruction) string {
	p := g.fset.Position(in.Pos())
	if !p.IsValid() {
		return ""
	}
	return fmt.Sprintf("%s:%d", p.Filename, p.Line)
}

// callSiteClauses: caller-side `call <callee> requires` obligations and covers.
func (g *Gen) callSiteClauses(fr *Frame, st *State, site ssa.Instruction, c *ssa.CallCommon, key string, ord int, args []Val, penv map[string]Val, sig *types.Signature, fn *ssa.Function, r string) {
	top := fr
	for top.parent != nil {
		top = top.parent
	}
	if top.fc == nil || g.dry > 0 {
		return
	}
	for _, cl := range top.fc.CallReqs {
		if cl.Anchor != key {
			continue
		}
		if cl.Arg != "" && !g.callHasConstArg(fr, c, cl.Arg) {
			continue
		}
		g.seenCall[cl] = true
		if !g.coveredSite[site] {
			g.coveredSite[site] = true
			fr.callIdx["cover:"+key]++
			g.addObligation(&Obligation{Name: fmt.Sprintf("%s.call[%s#%d].cover.reachable", fr.topKey(), key, fr.callIdx["cover:"+key]), Func: fr.topKey(), Kind: "cover",
				Guard: r, Goal: "false", Expect: "sat", Src: "vacuity guard: this call site is reachable under the assumptions", Pos: g.posOf(site)})
		}
		if cl.Kind == "callcover" {
			continue
		}
		if penv == nil {
			penv = g.bindParams(fr, st, g.lookupContract(key), key, fn, sig, args, c.IsInvoke())
		}
		// caller-side clauses speak about the function under contract: names resolve in its scope, at the call
		// that (possibly through inlined callees) led here
		env := g.envFor(top, st)
		env.pos = site.Pos()
		if top != fr {
			env.pos = top.curPos
		}
		env.vars = map[string]Val{}
		for k, v := range penv {
			env.vars["callee."+k] = v
			if _, clash := env.vars[k]; !clash {
				_, isParam := env.params[k]
				if _, isSrc := g.lookupSrc(env, k); !isSrc && !isParam {
					env.vars[k] = v
				}
			}
		}
		// callee.x refers to the callee's parameter x explicitly: expose as cx_<name> too
		for k, v := range penv {
			env.vars["c_"+k] = v
		}
		if top.fn.Pkg != nil {
			env.pkg = top.fn.Pkg.Pkg
		}
		v, err := g.evalBool(cl.Expr, env)
		if err != nil {
			if lv, ok := g.evalLenient(cl.Expr, env, true); ok {
				v, err = lv, nil
			}
		}
		if err != nil {
			g.contractError(cl, fmt.Errorf("at call %s#%d in %s: %v", key, ord, fr.topKey(), err))
			continue
		}
		name := fmt.Sprintf("%s.call[%s", fr.topKey(), key)
		if cl.Arg != "" {
			name += fmt.Sprintf(" %q", cl.Arg)
		}
		name += fmt.Sprintf("#%d].requires.%s", g.siteOrd(cl, site), cl.Name)
		g.addObligation(&Obligation{Name: name, Func: fr.topKey(), Kind: "callreq", Props: cl.Props, Guard: r, Goal: v, Src: cl.Src, Pos: g.posOf(site)})
	}
}

func (g *Gen) siteOrd(cl *Clause, site ssa.Instruction) int {
	m := g.siteOrds[cl]
	if m == nil {
		m = map[ssa.Instruction]int{}
		g.siteOrds[cl] = m
	}
	if n, ok := m[site]; ok {
		return n
	}
	m[site] = len(m) + 1
	return m[site]
}

func (g *Gen) callHasConstArg(fr *Frame, c *ssa.CallCommon, sub string) bool {
	for _, a := range c.Args {
		if k, ok := a.(*ssa.Const); ok && k.Value != nil && k.Value.Kind() == constant.String {
			if strings.Contains(constant.StringVal(k.Value), sub) {
				return true
			}
		}
		// named source variable passed as the argument (e.g. stagingPath, or name__2 for the 2nd variable called name)
		if fr.curSt != nil {
			env := &Env{g: g, fr: fr, st: fr.curSt}
			if o, ok := g.lookupSrc(env, sub); ok && !fr.curSt.srcAddr[o] && fr.curSt.src[o].T == fr.val(a).T {
				return true
			}
		}
	}
	return false
}

func (fr *Frame) exitSrc() map[types.Object]Val {
	if fr.curSt != nil {
		return fr.curSt.src
	}
	return nil
}

// ---------------------------------------------------------------------------
// Builtins

func (g *Gen) builtin(fr *Frame, st *State, site ssa.Instruction, c *ssa.CallCommon, name string, args []Val, r string) Val {
	resTy := func() types.Type {
		if v, ok := site.(ssa.Value); ok {
			return v.Type()
		}
		return nil
	}
	switch name {
	case "len", "cap":
		v, err := g.lenOf(args[0], st)
		if err == nil {
			if name == "cap" && args[0].S == "Slice" {
				v.T = fmt.Sprintf("(scap %s)", args[0].T)
			}
			if g.bv && v.S == "Int" {
				v = g.fromInt(v.T, types.Typ[types.Int])
			}
			return v
		}
		// channel length etc.
		return g.freshVal(fr.id+"len", types.Typ[types.Int])
	case "append":
		return g.appendOp(fr, st, site, c, args)
	case "copy":
		g.vc.note("unmodelled", "copy() in "+fr.key)
		if len(args) > 0 && args[0].Ptr != nil {
			g.havocPtr(st, args[0].Ptr)
		}
		return g.freshVal(fr.id+"copy", types.Typ[types.Int])
	case "delete":
		m, k := args[0], args[1]
		if mt, ok := types.Unalias(c.Args[0].Type()).Underlying().(*types.Map); ok {
			dn, ds, _, _ := g.mapHeaps(mt)
			dh := g.heapTerm(st, dn, ds)
			was := fmt.Sprintf("(select (select %s %s) %s)", dh, m.T, k.T)
			oldLen := fmt.Sprintf("(maplen$ %s)", g.mapLenKey(st, mt, m.T))
			g.setHeap(st, dn, ds, fmt.Sprintf("(store %s %s (store (select %s %s) %s false))", dh, m.T, dh, m.T, k.T), m.T)
			g.bumpMapLen(st, mt, m.T, fmt.Sprintf("(ite %s (- %s 1) %s)", was, oldLen, oldLen))
		}
		return Val{S: "Tuple"}
	case "close":
		ch := args[0]
		h := g.heapTerm(st, "closed$", "(Array Int Bool)")
		if g.dry == 0 {
			tf := fr
			for tf.parent != nil {
				tf = tf.parent
			}
			tf.callIdx["close"]++
			g.addObligation(&Obligation{Name: fmt.Sprintf("%s.close#%d.not-closed-twice", fr.topKey(), tf.callIdx["close"]), Func: fr.topKey(), Kind: "nopanic",
				Guard: r, Goal: sNot(fmt.Sprintf("(select %s %s)", h, ch.T)), Src: "close of an already closed channel panics", Pos: g.posOf(site)})
		}
		g.setHeap(st, "closed$", "(Array Int Bool)", fmt.Sprintf("(store %s %s true)", h, ch.T), ch.T)
		return Val{S: "Tuple"}
	case "min", "max":
		if len(args) == 2 && args[0].S == args[1].S {
			a, b := args[0], args[1]
			var le string
			if strings.HasPrefix(a.S, "(_ BitVec") {
				op := "bvsle"
				if isUnsigned(a.Ty) {
					op = "bvule"
				}
				le = fmt.Sprintf("(%s %s %s)", op, a.T, b.T)
			} else {
				le = fmt.Sprintf("(<= %s %s)", a.T, b.T)
			}
			if name == "min" {
				return Val{T: sIte(le, a.T, b.T), S: a.S, Ty: resTy()}
			}
			return Val{T: sIte(le, b.T, a.T), S: a.S, Ty: resTy()}
		}
	case "print", "println":
		return Val{S: "Tuple"}
	case "recover":
		return Val{T: "0", S: "Int", Ty: resTy()}
	case "ssa:wrapnilchk":
		return args[0]
	}
	g.vc.note("unmodelled", "builtin "+name)
	if t := resTy(); t != nil {
		return g.freshVal(fr.id+"bi", t)
	}
	return Val{S: "Tuple"}
}

func (g *Gen) appendOp(fr *Frame, st *State, site ssa.Instruction, c *ssa.CallCommon, args []Val) Val {
	rt := site.(ssa.Value).Type()
	s := args[0]
	if len(args) < 2 {
		return s
	}
	x := args[1]
	if s.S == "Str" {
		// append([]byte, bytes...)
		if x.S == "Str" {
			return Val{T: fmt.Sprintf("(cat %s %s)", s.T, x.T), S: "Str", Ty: rt}
		}
		if x.S == "Slice" && x.Elems != nil {
			t := s.T
			for _, e := range x.Elems {
				t = fmt.Sprintf("(cat %s (byte1 %s))", t, g.toInt(e))
			}
			return Val{T: t, S: "Str", Ty: rt}
		}
		return g.freshVal(fr.id+"app", rt)
	}
	if s.S == "Slice" && x.S == "Slice" {
		el := types.Unalias(rt).Underlying().(*types.Slice).Elem()
		srt := g.sortOf(el)
		name := "HA$" + srt
		hs := "(Array Int (Array Int " + srt + "))"
		h := g.heapTerm(st, name, hs)
		arr := g.newRef(fr.id + "apparr")
		if x.Elems != nil {
			content := fmt.Sprintf("(select %s (sarr %s))", h, s.T)
			ok := true
			for i, e := range x.Elems {
				if e.T == "" {
					ok = false
					break
				}
				content = fmt.Sprintf("(store %s (idx$ (soff %s) (+ (slenS %s) %d)) %s)", content, s.T, s.T, i, e.T)
			}
			if ok {
				g.setHeap(st, name, hs, fmt.Sprintf("(store %s %s %s)", h, arr, content), arr)
				cp := g.vc.freshConst(fr.id+"cap", "Int")
				n := len(x.Elems)
				g.vc.assume("", fmt.Sprintf("(>= %s (+ (slenS %s) %d))", cp, s.T, n))
				return Val{T: fmt.Sprintf("(mk$Slice %s (soff %s) (+ (slenS %s) %d) %s)", arr, s.T, s.T, n, cp), S: "Slice", Ty: rt}
			}
		}
		// append(s, t...): contents described by quantified facts
		na := g.vc.freshConst(fr.id+"appc", "(Array Int "+srt+")")
		g.setHeap(st, name, hs, fmt.Sprintf("(store %s %s %s)", h, arr, na), arr)
		g.vc.assume("", fmt.Sprintf("(forall ((i Int)) (! (=> (and (<= 0 i) (< i (slenS %s))) (= (select %s (idx$ 0 i)) (select (select %s (sarr %s)) (idx$ (soff %s) i)))) :pattern ((select %s (idx$ 0 i)))))", s.T, na, h, s.T, s.T, na))
		g.vc.assume("", fmt.Sprintf("(forall ((i Int)) (! (=> (and (<= 0 i) (< i (slenS %s))) (= (select %s (idx$ 0 (+ (slenS %s) i))) (select (select %s (sarr %s)) (idx$ (soff %s) i)))) :pattern ((select (select %s (sarr %s)) (idx$ (soff %s) i)))))", x.T, na, s.T, h, x.T, x.T, h, x.T, x.T))
		cp := g.vc.freshConst(fr.id+"cap", "Int")
		g.vc.assume("", fmt.Sprintf("(>= %s (+ (slenS %s) (slenS %s)))", cp, s.T, x.T))
		return Val{T: fmt.Sprintf("(mk$Slice %s 0 (+ (slenS %s) (slenS %s)) %s)", arr, s.T, x.T, cp), S: "Slice", Ty: rt}
	}
	g.vc.note("unmodelled", "append on "+rt.String())
	return g.freshVal(fr.id+"app", rt)
}

// ---------------------------------------------------------------------------
// Deferred calls

func (g *Gen) runDeferred(fr *Frame, st *State, d deferEntry, r string) {
	guard := g.vc.define(fr.id+"dg", "Bool", sAnd(r, d.guard))
	if guard == "false" {
		return
	}
	// effects are conditional on the defer having been pushed on this path
	branch := st.Clone()
	g.call(d.fr, branch, d.call, d.call.Common(), guard)
	merged := g.merge([]*State{branch, st}, []string{d.guard, sNot(d.guard)})
	*st = *merged
}

// zeroObject zero-initialises all real and ghost fields of a fresh object.
func (g *Gen) zeroObject(st *State, ref string, el types.Type) {
	if _, ok := types.Unalias(el).Underlying().(*types.Struct); !ok {
		return
	}
	key := g.structKey(el)
	var paths [][]string
	var tys []types.Type
	g.leafPaths(el, nil, &paths, &tys)
	if len(paths) <= 120 {
		for i, pa := range paths {
			g.storePtr(st, &Ptr{Kind: pField, Base: ref, Struct: key, Path: pa, Ty: tys[i]}, Val{T: g.zero(tys[i]), S: g.sortOf(tys[i]), Ty: tys[i]})
		}
	}
	for _, gf := range g.cs.GFields {
		if sanitize(gf.Struct) != key {
			continue
		}
		srt, ty, err := g.sortOfTypeName(gf.Type, nil)
		if err != nil {
			continue
		}
		g.storePtr(st, &Ptr{Kind: pField, Base: ref, Struct: key, Path: []string{gf.Name}, Ty: ghostType{srt, ty}}, Val{T: g.zeroOfSort(srt), S: srt, Ty: ty})
	}
}

// invokeClosure inlines a statically known closure (used by `invoke` steps).
func (g *Gen) invokeClosure(fr *Frame, st *State, clo *Closure, args []Val, guard string) []Val {
	fn := clo.Fn
	if len(fn.Blocks) == 0 || fr.onStack(fn) || fr.depth >= g.maxInline+2 {
		g.havocAll(st)
		return nil
	}
	cf := g.newFrame(fn, fr)
	cf.free = clo.Bindings
	for i, p := range fn.Params {
		if i < len(args) {
			a := args[i]
			a.Ty = p.Type()
			cf.vals[p] = a
			cf.params[p.Name()] = a
			if p.Object() != nil {
				st.src[p.Object()] = a
				st.srcAddr[p.Object()] = false
			}
		}
	}
	g.vc.note("inlined", keyOfSSAFunc(fn)+" (invoked) into "+fr.topKey())
	res, stOut, exitG := g.execFunc(cf, st, guard)
	*st = *stOut
	if exitG != "false" {
		g.vc.assume(guard, exitG)
	} else {
		g.vc.assume("", sNot(guard))
	}
	fr.panics = append(fr.panics, cf.panics...)
	return res
}

// externalFuncValue: the function value is the result of a call to a function outside the module.
func (g *Gen) externalFuncValue(v ssa.Value, depth int) bool {
	if depth > 3 {
		return false
	}
	switch x := v.(type) {
	case *ssa.Extract:
		return g.externalFuncValue(x.Tuple, depth+1)
	case *ssa.Call:
		if x.Common().IsInvoke() {
			t := types.Unalias(x.Common().Value.Type())
			if n, ok := t.(*types.Named); ok {
				return !g.isRepoPkg(n.Obj().Pkg())
			}
			return false
		}
		if f := x.Common().StaticCallee(); f != nil {
			return !g.isRepoPkg(pkgOfFn(f))
		}
	case *ssa.Phi:
		for _, e := range x.Edges {
			if !g.externalFuncValue(e, depth+1) {
				return false
			}
		}
		return len(x.Edges) > 0
	}
	return false
}

// fieldElemOrigin: "<pkg.Struct.field>#elem" when v is an element obtained from a map/slice loaded from a struct field.
func fieldElemOrigin(v ssa.Value, depth int) string {
	if depth > 6 {
		return ""
	}
	switch x := v.(type) {
	case *ssa.Extract:
		return fieldElemOrigin(x.Tuple, depth+1)
	case *ssa.Next:
		return fieldElemOrigin(x.Iter, depth+1)
	case *ssa.Range:
		return fieldElemOrigin(x.X, depth+1)
	case *ssa.Lookup:
		return fieldElemOrigin(x.X, depth+1)
	case *ssa.UnOp:
		if x.Op.String() != "*" {
			return ""
		}
		if ia, ok := x.X.(*ssa.IndexAddr); ok {
			return fieldElemOrigin(ia.X, depth+1)
		}
		if fa, ok := x.X.(*ssa.FieldAddr); ok {
			pt, ok := fa.X.Type().Underlying().(*types.Pointer)
			if !ok {
				return ""
			}
			st, ok := pt.Elem().Underlying().(*types.Struct)
			if !ok {
				return ""
			}
			n, ok := types.Unalias(pt.Elem()).(*types.Named)
			if !ok {
				return ""
			}
			return pkgName(n.Obj().Pkg()) + "." + n.Obj().Name() + "." + st.Field(fa.Field).Name() + "#elem"
		}
	}
	return ""
}

// externalErrorFacts: an error produced by code outside the module never is (errors.Is) one of the module's
// sentinel error variables, which external code cannot name.
func (g *Gen) externalErrorFacts(fr *Frame, st *State, res []Val, resT *types.Tuple) {
	if g.dry > 0 {
		return
	}
	top := fr
	for top.parent != nil {
		top = top.parent
	}
	p := pkgOfFn(top.fn)
	if p == nil {
		return
	}
	errT := types.Universe.Lookup("error").Type()
	for i := 0; i < resT.Len() && i < len(res); i++ {
		if !types.Identical(resT.At(i).Type(), errT) {
			continue
		}
		for _, name := range p.Scope().Names() {
			v, ok := p.Scope().Lookup(name).(*types.Var)
			if !ok || !types.Identical(v.Type(), errT) {
				continue
			}
			sv := g.loadPtr(st, &Ptr{Kind: pGlobal, Cell: "G$" + pkgName(p) + "." + v.Name(), Ty: v.Type()})
			g.declIs()
			g.vc.assume("", fmt.Sprintf("(and (not (= %s %s)) (not (p$Is %s %s)))", res[i].T, sv.T, res[i].T, sv.T))
		}
	}
}

// otherPackage: the callee lives in a different package than the function under verification.
func (g *Gen) otherPackage(fr *Frame, fn *ssa.Function) bool {
	top := fr
	for top.parent != nil {
		top = top.parent
	}
	a, b := pkgOfFn(top.fn), pkgOfFn(fn)
	return a != nil && b != nil && a != b
}

// callBinds: `call <callee> bind name = expr [when a == b]` clauses of the function under contract: snapshot a value in
// the state right after this call (stored path-sensitively as the pseudo cell bind$name).
func (g *Gen) callBinds(fr *Frame, st *State, site ssa.Instruction, c *ssa.CallCommon, key string, penv map[string]Val, res []Val) {
	top := fr
	for top.parent != nil {
		top = top.parent
	}
	if top.fc == nil || len(top.fc.Binds) == 0 {
		return
	}
	for _, cl := range top.fc.Binds {
		if cl.Anchor != key {
			continue
		}
		env := g.envFor(fr, st)
		env.pos = site.Pos()
		env.vars = map[string]Val{}
		for k, v := range penv {
			env.vars[k] = v
		}
		for i, rv := range res {
			env.vars[fmt.Sprintf("ret%d", i)] = rv
		}
		if len(res) == 1 {
			env.vars["ret"] = res[0]
		}
		if cl.When != nil {
			if cl.When.Op != "bin" || cl.When.Name != "==" {
				continue
			}
			a, err1 := g.eval(cl.When.Args[0], env)
			b, err2 := g.eval(cl.When.Args[1], env)
			if err1 != nil || err2 != nil || a.T != b.T {
				continue // syntactic guard: not this call site
			}
		}
		v, err := g.eval(cl.Expr, env)
		if os.Getenv("GOVC_DEBUG_KEY") != "" {
			fmt.Fprintf(os.Stderr, "  bind %s at %s: err=%v dry=%d\n", cl.Name, key, err, g.dry)
		}
		if err != nil {
			continue
		}
		g.seenCall[cl] = true
		g.setCell(st, "bind$"+cl.Name, v)
	}
}

// invokeStar: an assumed higher-order callee invokes the closure any number of times (`invoke*`). The caller's
// `call <callee> invariant` clauses are loop invariants over those invocations: checked before the first one,
// assumed in an arbitrary intermediate state (what the closure writes is havocked), checked again after one more
// invocation with arbitrary admissible arguments; the state after the call is again an arbitrary state that
// satisfies the invariants. Without invariants nothing is known afterwards about what the closure writes.
func (g *Gen) invokeStar(fr *Frame, st *State, site ssa.Instruction, key string, clo *Closure, args []Val, r, guard string) {
	top := fr
	for top.parent != nil {
		top = top.parent
	}
	var invs []*Clause
	if top.fc != nil && top == fr { // invariants speak about the function under contract's own call sites, not those of inlined callees
		for _, cl := range top.fc.CallInvs {
			if cl.Anchor == key {
				invs = append(invs, cl)
			}
		}
	}
	evalInvs := func(s *State) []string {
		out := make([]string, len(invs))
		for i, cl := range invs {
			env := g.envFor(fr, s)
			env.pos = site.Pos()
			if top.fn.Pkg != nil {
				env.pkg = top.fn.Pkg.Pkg
			}
			v, err := g.evalBool(cl.Expr, env)
			if err != nil {
				g.contractError(cl, fmt.Errorf("at call %s in %s: %v", key, fr.topKey(), err))
				v = "true"
			}
			out[i] = v
		}
		return out
	}
	name := func(cl *Clause, what string) string {
		return fmt.Sprintf("%s.call[%s#%d].invariant.%s.%s", fr.topKey(), key, g.siteOrd(cl, site), cl.Name, what)
	}
	if g.dry == 0 {
		for i, v := range evalInvs(st) {
			g.seenCall[invs[i]] = true
			g.addObligation(&Obligation{Name: name(invs[i], "entry"), Func: fr.topKey(), Kind: "callinv", Props: invs[i].Props, Guard: r, Goal: v, Src: invs[i].Src, Pos: g.posOf(site)})
		}
	}
	g.havocCaptured(st, clo)
	for _, v := range evalInvs(st) {
		g.vc.assume(r, v)
	}
	branch := st.Clone()
	g.invokeClosure(fr, branch, clo, args, guard)
	if g.dry == 0 {
		for i, v := range evalInvs(branch) {
			g.addObligation(&Obligation{Name: name(invs[i], "preserved"), Func: fr.topKey(), Kind: "callinv", Props: invs[i].Props, Guard: guard, Goal: v, Src: invs[i].Src, Pos: g.posOf(site)})
		}
		if len(invs) > 0 {
			g.addObligation(&Obligation{Name: fmt.Sprintf("%s.call[%s#%d].invariant.cover.reachable", fr.topKey(), key, g.siteOrd(invs[0], site)), Func: fr.topKey(), Kind: "cover",
				Guard: guard, Goal: "false", Expect: "sat", Src: "vacuity guard: the invoked closure runs under the invariants", Pos: g.posOf(site)})
		}
	}
}

// dryCallee runs the body of a contracted in-module callee once, discarding everything but its write set: the heaps,
// ghost variables, globals and escaped cells that it (or anything it calls) may modify. The caller's knowledge about
// those locations is dropped at the call; what the caller may assume afterwards is the callee's ensures.
func (g *Gen) dryCallee(fr *Frame, st *State, fn *ssa.Function, clo *Closure, c *ssa.CallCommon, args []Val, key string) *writeSet {
	if fr.onStack(fn) {
		g.vc.note("unmodelled", "frame of the recursive call to "+key+" is its explicit modifies list only")
		return nil
	}
	saveLines, saveObls, saveNotes := len(g.vc.lines), len(g.vc.obls), len(g.vc.notes)
	saveClock := g.vc.clock
	saveWS := g.ws
	ws := &writeSet{heaps: map[string]bool{}, cells: map[string]bool{}, bases: map[string]map[string]bool{}, all: map[string]bool{}, start: g.vc.fresh, allocSet: g.vc.allocSet}
	g.ws = ws
	g.dry++
	cf := g.newFrame(fn, fr)
	if clo != nil {
		cf.free = clo.Bindings
	} else if len(fn.FreeVars) > 0 {
		if v := fr.val(c.Value); v.Clo != nil {
			cf.free = v.Clo.Bindings
		}
	}
	stIn := st.Clone()
	for i, p := range fn.Params {
		if i < len(args) {
			a := args[i]
			a.Ty = p.Type()
			cf.vals[p] = a
			cf.params[p.Name()] = a
			if p.Object() != nil {
				stIn.src[p.Object()] = a
				stIn.srcAddr[p.Object()] = false
			}
		}
	}
	_, stOut, _ := g.execFunc(cf, stIn, "true")
	g.dry--
	g.ws = saveWS
	g.vc.clock = saveClock
	g.vc.lines = g.vc.lines[:saveLines]
	g.vc.obls = g.vc.obls[:saveObls]
	g.vc.notes = g.vc.notes[:saveNotes]
	if os.Getenv("GOVC_DEBUG_WS") != "" {
		var hs []string
		for _, k := range sortedKeysB(ws.heaps) {
			if ws.all[k] {
				hs = append(hs, k+"[*]")
			} else {
				hs = append(hs, fmt.Sprintf("%s%v", k, sortedKeysB(ws.bases[k])))
			}
		}
		fmt.Fprintf(os.Stderr, "write set of %s called from %s (dry=%d): heaps %v cells %v\n", key, fr.topKey(), g.dry, hs, sortedKeysB(ws.cells))
	}
	// sorts/types of cells first touched inside the callee (ghost variables, globals)
	ws.cellVals = map[string]Val{}
	for k := range ws.cells {
		if v, ok := stOut.cells[k]; ok {
			ws.cellVals[k] = v
		} else if v, ok := stIn.cells[k]; ok {
			ws.cellVals[k] = v
		}
	}
	return ws
}

// havocWriteSet forgets what is known about the locations in ws (a callee's write set).
func (g *Gen) havocWriteSet(fr *Frame, st *State, ws *writeSet) {
	for _, k := range sortedKeysB(ws.heaps) {
		srt := st.hsort[k]
		if srt == "" {
			continue
		}
		if ws.all[k] || !strings.HasPrefix(srt, "(Array Int ") {
			g.setHeap(st, k, srt, g.vc.freshConst("Hc$"+k, srt), "")
			continue
		}
		elem := strings.TrimSuffix(strings.TrimPrefix(srt, "(Array Int "), ")")
		for _, b := range sortedKeysB(ws.bases[k]) {
			cur := g.heapTerm(st, k, srt)
			ne := g.vc.freshConst("Hce$"+k, elem)
			g.setHeap(st, k, srt, fmt.Sprintf("(store %s %s %s)", cur, b, ne), b)
		}
	}
	for _, k := range sortedKeysB(ws.cells) {
		old, ok := st.cells[k]
		if !ok {
			if !(strings.HasPrefix(k, "ghost$") || strings.HasPrefix(k, "G$")) {
				continue // a cell private to the callee's frame
			}
			old, ok = ws.cellVals[k]
			if !ok {
				continue
			}
		}
		nv := Val{T: g.vc.freshConst("cc$"+k, old.S), S: old.S, Ty: old.Ty}
		g.setCell(st, k, nv)
	}
}
