package main

import (
	"bytes"
	"context"
	"crypto/sha256"
	"encoding/hex"
	"fmt"
	"os"
	"os/exec"
	"path/filepath"
	"runtime/debug"
	"strings"
	"sync"
	"sync/atomic"
	"time"
)

func stackTrace() string { return string(debug.Stack()) }

const smtDefs = `(define-fun godiv ((a Int) (b Int)) Int (ite (>= a 0) (ite (> b 0) (div a b) (- (div a (- b)))) (ite (> b 0) (- (div (- a) b)) (div (- a) (- b)))))
(define-fun gomod ((a Int) (b Int)) Int (- a (* b (godiv a b))))
(declare-fun fresh$ (Int) Bool)
(declare-fun allocid$ (Int) Int)
(declare-fun idx$ (Int Int) Int)
(assert (forall ((a Int) (b Int)) (! (= (idx$ a b) (+ a b)) :pattern ((idx$ a b)))))
(declare-fun atbv (Str Int) (_ BitVec 8))
(declare-fun pow2big (Int) Int)
`

// pow2Def defines pow2 exactly on 0..63 (an ite chain the solver can case split on).
func pow2Def() string {
	var b strings.Builder
	b.WriteString("(define-fun pow2 ((k Int)) Int ")
	for k := 0; k < 64; k++ {
		fmt.Fprintf(&b, "(ite (= k %d) %d ", k, uint64(1)<<uint(k))
	}
	b.WriteString("(pow2big k)")
	b.WriteString(strings.Repeat(")", 64))
	b.WriteString(")\n")
	return b.String()
}

// queryText builds the SMT-LIB text of an obligation.
func queryText(vc *VC, o *Obligation) string {
	var b strings.Builder
	b.WriteString("(set-option :produce-models true)\n")
	b.WriteString("(set-logic ALL)\n")
	b.WriteString(prelude)
	for _, srt := range vc.sorts {
		fmt.Fprintf(&b, "(declare-sort %s 0)\n", srt)
	}
	b.WriteString(smtDefs)
	b.WriteString(pow2Def())
	keepDecl, keepLine := vc.sliceFor(o, "")
	if o.NoSlice {
		for i := range keepDecl {
			keepDecl[i] = true
		}
		for i := range keepLine {
			keepLine[i] = true
		}
	}
	ix := vc.sidx
	// drop unused constant/function declarations as well
	used := map[string]bool{}
	for _, t := range tokens(o.Guard + " " + o.Goal) {
		used[t] = true
	}
	for i, k := range keepDecl {
		if k && ix.decls[i].kind != "declare" {
			for _, s := range ix.decls[i].syms {
				used[s] = true
			}
		}
	}
	for i, k := range keepLine {
		if k {
			for _, s := range ix.lines[i].syms {
				used[s] = true
			}
		}
	}
	var body strings.Builder
	for i, d := range vc.decls {
		if !keepDecl[i] {
			continue
		}
		li := ix.decls[i]
		if !o.NoSlice && li.kind == "declare" && li.name != "" && !used[li.name] && !strings.HasPrefix(d, "(declare-datatypes") {
			continue
		}
		body.WriteString(d)
		body.WriteByte('\n')
	}
	for i, l := range vc.lines[:len(keepLine)] {
		if !keepLine[i] {
			continue
		}
		body.WriteString(l)
		body.WriteByte('\n')
	}
	all := b.String() + body.String() + o.Guard + o.Goal
	for _, ax := range strAxioms {
		if o.NoSlice || ax.sym == "" || strings.Contains(all, "("+ax.sym+" ") {
			b.WriteString(ax.ax)
			b.WriteByte('\n')
		}
	}
	b.WriteString(body.String())
	fmt.Fprintf(&b, "; obligation %s\n", o.Name)
	if o.Guard != "" && o.Guard != "true" {
		fmt.Fprintf(&b, "(assert %s)\n", o.Guard)
	}
	fmt.Fprintf(&b, "(assert (not %s))\n", o.Goal)
	b.WriteString("(check-sat)\n")
	return b.String()
}

type solverSpec struct {
	name string
	args func(file string, timeoutS int) []string
}

var solvers = []solverSpec{
	{"z3-new", func(f string, t int) []string { return []string{"z3-new", fmt.Sprintf("-T:%d", t), "-smt2", f} }},
	{"z3", func(f string, t int) []string { return []string{"z3", fmt.Sprintf("-T:%d", t), "-smt2", f} }},
	{"cvc5", func(f string, t int) []string {
		return []string{"cvc5", fmt.Sprintf("--tlimit=%d", t*1000), "--lang=smt2", f}
	}},
}

type solverResult struct {
	solver string
	answer string // unsat, sat, unknown, timeout, error
	out    string
	ms     int64
}

var procSem = make(chan struct{}, 16)

// cacheDir holds the proof cache ("" = disabled); cacheHits counts the obligations answered from it in this run.
var cacheDir string
var cacheHits int64

func runOne(ctx context.Context, sp solverSpec, file string, timeoutS int) solverResult {
	procSem <- struct{}{}
	defer func() { <-procSem }()
	if ctx.Err() != nil {
		return solverResult{solver: sp.name, answer: "cancelled"}
	}
	args := sp.args(file, timeoutS)
	cctx, cancel := context.WithTimeout(ctx, time.Duration(timeoutS+3)*time.Second)
	defer cancel()
	cmd := exec.CommandContext(cctx, args[0], args[1:]...)
	var out bytes.Buffer
	cmd.Stdout = &out
	cmd.Stderr = &out
	t0 := time.Now()
	_ = cmd.Run()
	ms := time.Since(t0).Milliseconds()
	s := out.String()
	first := ""
	for _, l := range strings.Split(s, "\n") {
		l = strings.TrimSpace(l)
		if l == "" || strings.HasPrefix(l, "WARNING") {
			continue // solver warnings (e.g. a pattern that was dropped) precede the answer
		}
		first = l
		break
	}
	ans := "unknown"
	switch {
	case first == "unsat":
		ans = "unsat"
	case first == "sat":
		ans = "sat"
	case first == "timeout" || cctx.Err() != nil || strings.Contains(s, "interrupted by timeout"):
		ans = "timeout" // cvc5 prints "unknown" plus "cvc5 interrupted by timeout."
	case strings.Contains(first, "error") || strings.HasPrefix(first, "(error"):
		ans = "error"
	}
	return solverResult{solver: sp.name, answer: ans, out: s, ms: ms}
}

// discharge races the solvers on one obligation.
func discharge(dir string, idx int, vc *VC, o *Obligation, timeoutS int, waitAll bool) {
	if o.Static {
		return
	}
	if o.Expect == "sat" && timeoutS > 3 {
		timeoutS = 2 // vacuity covers only need "not refuted quickly"
		if o.NoSlice {
			timeoutS = 8
		}
	}
	tq := time.Now()
	q := queryText(vc, o)
	atomic.AddInt64(&queryGenNs, int64(time.Since(tq)))
	// Proof cache: the same function is in the dependency set of several properties, so the very same query is
	// generated by several checks. A query that a solver has already answered the expected way (unsat for an
	// obligation, not-unsat for a vacuity cover) is not sent again: the cache key is the SHA-256 of the complete query
	// text, so any change to the code, the contracts or the theory produces a different key. Only successes are
	// cached; an obligation that failed is always solved again.
	ckey := ""
	if cacheDir != "" {
		sum := sha256.Sum256([]byte(q))
		ckey = filepath.Join(cacheDir, o.Expect+"-"+hex.EncodeToString(sum[:]))
		if data, err := os.ReadFile(ckey); err == nil {
			parts := strings.SplitN(string(data), "\n", 3)
			if len(parts) == 3 {
				o.Status, o.Solver = parts[0], parts[1]
				o.Output = "cached (identical query answered earlier by " + parts[1] + "): " + parts[2]
				o.Cached = true
				atomic.AddInt64(&cacheHits, 1)
				return
			}
		}
	}
	defer func() {
		if ckey != "" && ((o.Expect != "sat" && o.Status == "discharged") || (o.Expect == "sat" && o.Status == "ok")) {
			tmp := fmt.Sprintf("%s.%d.tmp", ckey, os.Getpid())
			if os.WriteFile(tmp, []byte(o.Status+"\n"+o.Solver+"\n"+truncate(o.Output, 300)), 0o644) == nil {
				os.Rename(tmp, ckey)
			}
		}
	}()
	file := filepath.Join(dir, fmt.Sprintf("q%05d.smt2", idx))
	if err := os.WriteFile(file, []byte(q), 0o644); err != nil {
		o.Status = "engine-error"
		o.Output = err.Error()
		return
	}
	o.Aux = file
	ctx, cancel := context.WithCancel(context.Background())
	defer cancel()
	use := solvers
	if o.Expect == "sat" && !o.NoSlice && len(solvers) > 2 {
		use = solvers[:2] // covers: the two z3 versions (cvc5 answers unknown on quantified satisfiable queries)
	}
	resCh := make(chan solverResult, len(use))
	for _, sp := range use {
		sp := sp
		go func() { resCh <- runOne(ctx, sp, file, timeoutS) }()
	}
	var all []solverResult
	var decisive *solverResult
	for range use {
		r := <-resCh
		all = append(all, r)
		if (r.answer == "unsat" || r.answer == "sat") && decisive == nil {
			rr := r
			decisive = &rr
			if !waitAll {
				cancel()
			}
		}
	}
	// disagreement check
	sawSat, sawUnsat := false, false
	for _, r := range all {
		if r.answer == "sat" {
			sawSat = true
		}
		if r.answer == "unsat" {
			sawUnsat = true
		}
	}
	var outs []string
	for _, r := range all {
		if r.answer == "cancelled" {
			continue
		}
		outs = append(outs, fmt.Sprintf("[%s %s %dms] %s", r.solver, r.answer, r.ms, truncate(strings.TrimSpace(firstLines(r.out, 3)), 300)))
	}
	o.Output = strings.Join(outs, " | ")
	if sawSat && sawUnsat {
		o.Status = "engine-error"
		o.Output = "solver disagreement: " + o.Output
		return
	}
	if decisive != nil {
		o.Solver = decisive.solver
		o.Ms = decisive.ms
	} else {
		var mx int64
		for _, r := range all {
			if r.ms > mx {
				mx = r.ms
			}
		}
		o.Ms = mx
	}
	if o.Expect == "sat" {
		switch {
		case sawUnsat:
			o.Status = "vacuous"
		default:
			o.Status = "ok"
		}
		return
	}
	switch {
	case sawUnsat:
		o.Status = "discharged"
		if os.Getenv("GOVC_KEEP") == "" {
			os.Remove(file)
			o.Aux = ""
		}
	case sawSat:
		o.Status = "refuted"
		o.Model = getModel(file, decisive.solver, timeoutS)
	default:
		o.Status = "undischarged"
		nerr := 0
		for _, r := range all {
			if r.answer == "error" {
				nerr++
			}
		}
		if nerr == len(all) {
			o.Status = "engine-error"
		}
	}
}

func firstLines(s string, n int) string {
	ls := strings.Split(s, "\n")
	if len(ls) > n {
		ls = ls[:n]
	}
	return strings.Join(ls, " ")
}

// getModel re-runs the deciding solver with (get-model).
func getModel(file, solver string, timeoutS int) string {
	data, err := os.ReadFile(file)
	if err != nil {
		return ""
	}
	mf := file + ".model.smt2"
	os.WriteFile(mf, append(data, []byte("(get-model)\n")...), 0o644)
	defer os.Remove(mf)
	for _, sp := range solvers {
		if sp.name == solver {
			r := runOne(context.Background(), sp, mf, timeoutS)
			return r.out
		}
	}
	return ""
}

// dischargeAll runs all obligations with bounded parallelism.
var queryGenNs int64

func dischargeAll(dir string, items []oblItem, timeoutS int, waitAll bool) {
	seenVC := map[*VC]bool{}
	for _, it := range items {
		if it.vc != nil && !seenVC[it.vc] {
			seenVC[it.vc] = true
			it.vc.index()
		}
	}
	var wg sync.WaitGroup
	sem := make(chan struct{}, 10)
	for i := range items {
		wg.Add(1)
		sem <- struct{}{}
		go func(i int) {
			defer wg.Done()
			defer func() { <-sem }()
			discharge(dir, i, items[i].vc, items[i].o, timeoutS, waitAll)
		}(i)
	}
	wg.Wait()
	// Second chance against machine load: an obligation on which every solver ran out of time (none answered
	// "unknown" or "sat") is retried with nothing else running and three times the budget, so that a busy machine
	// cannot turn a proof that takes a few seconds into an alarm. At most eight retries, two at a time.
	var retry []int
	for i := range items {
		if os.Getenv("GOVC_NORETRY") != "" {
			break // must-fail corpus runs: one failing obligation is enough, do not spend the retry budget
		}
		o := items[i].o
		if o.Status == "undischarged" && o.Expect != "sat" && strings.Contains(o.Output, " timeout ") && !strings.Contains(o.Output, " unknown ") && len(retry) < 8 {
			retry = append(retry, i)
		}
	}
	sem2 := make(chan struct{}, 2)
	for _, i := range retry {
		wg.Add(1)
		sem2 <- struct{}{}
		go func(i int) {
			defer wg.Done()
			defer func() { <-sem2 }()
			first := items[i].o.Output
			discharge(dir, i, items[i].vc, items[i].o, timeoutS*3, waitAll)
			items[i].o.Output = "retried alone after timeouts under load: " + items[i].o.Output + " || first attempt: " + first
		}(i)
	}
	wg.Wait()
}

type oblItem struct {
	vc *VC
	o  *Obligation
}
