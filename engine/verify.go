package main

import (
	"fmt"
	"go/constant"
	"go/types"
	"os"
	"sort"
	"strings"

	"golang.org/x/tools/go/ssa"
)

func (g *Gen) resetVC() {
	g.vc = &VC{declSet: map[string]bool{}, sorts: g.cs.Sorts}
	g.frameSeq = 0 // frame ids restart per verification condition: the query text of a function does not depend on what was verified before it
	g.structs = map[string]*types.Struct{}
	g.strLits = map[string]string{}
	g.tags = map[string]int{}
	g.tagTypes = nil
	g.seenCall = map[*Clause]bool{}
	g.siteOrds = map[*Clause]map[ssa.Instruction]int{}
	g.coveredSite = map[ssa.Instruction]bool{}
	g.dry = 0
	g.ws = nil
}

// axiomsInto asserts all axioms (and, if asked, lemmas already proved) into the current VC.
func (g *Gen) axiomsInto(pkg *types.Package, upTo *Axiom) {
	for _, ax := range g.cs.Axioms {
		if ax == upTo {
			break
		}
		if g.bv && !strings.Contains(ax.Src, "bvok") {
			// integer-sorted theories are not used in bit-vector mode
			continue
		}
		env := &Env{g: g, vars: map[string]Val{}, pkg: pkg, noHeap: true}
		v, err := g.evalBool(ax.Expr, env)
		if err != nil {
			g.vc.note("axiom-skipped", fmt.Sprintf("%s: %v", ax.Name, err))
			continue
		}
		g.vc.lines = append(g.vc.lines, fmt.Sprintf("(assert %s) ; %s %s", v, map[bool]string{true: "lemma", false: "axiom"}[ax.Lemma], ax.Name))
	}
}

// verifyLemma produces the obligation for one lemma.
func (g *Gen) verifyLemma(ax *Axiom) *VC {
	g.resetVC()
	g.bv = false
	g.curTop = "lemma." + ax.Name
	g.axiomsInto(nil, ax)
	env := &Env{g: g, vars: map[string]Val{}, noHeap: true}
	v, err := g.evalBool(ax.Expr, env)
	if err != nil {
		g.addObligation(&Obligation{Name: "lemma." + ax.Name + ".binding", Func: "lemma", Kind: "binding", Props: ax.Props, Guard: "true", Goal: "false",
			Static: true, Status: "undischarged", Output: err.Error(), Src: ax.Src, Pos: fmt.Sprintf("%s:%d", ax.File, ax.Line)})
		return g.vc
	}
	g.addObligation(&Obligation{Name: "lemma." + ax.Name, Func: "lemma", Kind: "lemma", Props: ax.Props, Guard: "true", Goal: v, Src: ax.Src, Pos: fmt.Sprintf("%s:%d", ax.File, ax.Line)})
	return g.vc
}

// verifyFunc generates the VC of one function under contract.
func (g *Gen) verifyFunc(fc *FuncContract) (vc *VC) {
	g.resetVC()
	g.bv = fc.ModeBV
	g.curTop = fc.Key
	vc = g.vc
	// mutex self-deadlock / unlock-without-lock obligations only where the contract talks about locks
	g.lockObls = false
	for _, cl := range append(append(append([]*Clause{}, fc.Requires...), fc.Ensures...), fc.Invs...) {
		if strings.Contains(cl.Src, "held(") {
			g.lockObls = true
		}
	}
	fn := g.resolveFuncKey(fc.Key)
	if fn == nil || len(fn.Blocks) == 0 {
		g.addObligation(&Obligation{Name: fc.Key + ".binding", Func: fc.Key, Kind: "binding", Props: fc.Props, Guard: "true", Goal: "false", Static: true,
			Status: "undischarged", Output: "function under contract not found in the code (renamed, removed or without body)", Pos: fmt.Sprintf("%s:%d", fc.File, fc.Line)})
		return
	}
	defer func() {
		if r := recover(); r != nil {
			g.dry = 0
			g.addObligation(&Obligation{Name: fc.Key + ".engine-error", Func: fc.Key, Kind: "engine", Props: fc.Props, Guard: "true", Goal: "false", Static: true,
				Status: "engine-error", Output: fmt.Sprintf("generator panic: %v\n%s", r, stackTrace())})
		}
	}()
	var pkg *types.Package
	if p := pkgOfFn(fn); p != nil {
		pkg = p
	}
	g.axiomsInto(pkg, nil)
	fr := g.newFrame(fn, nil)
	fr.fc = fc
	fr.top = true
	fr.noPanic = fc.NoPanic
	st := NewState()
	vc.fn, vc.topKey = fn, fc.Key
	for _, p := range fn.Params {
		v := g.freshVal("p_"+p.Name(), p.Type())
		vc.params = append(vc.params, replayParam{Name: p.Name(), V: v, Ty: p.Type()})
		fr.vals[p] = v
		fr.params[p.Name()] = v
		if p.Object() != nil {
			st.src[p.Object()] = v
		}
		g.paramFacts(v)
		if v.S == "Int" {
			switch types.Unalias(p.Type()).Underlying().(type) {
			case *types.Pointer, *types.Map, *types.Chan:
				g.vc.assume("", fmt.Sprintf("(<= (allocid$ %s) 0)", v.T))
			}
		}
		if v.S == "Slice" {
			// the backing array of a slice parameter existed before the call
			g.vc.assume("", fmt.Sprintf("(<= (allocid$ (sarr %s)) 0)", v.T))
		}
	}
	// closures verified standalone: free variables are arbitrary cells
	for _, fv := range fn.FreeVars {
		el := fv.Type().Underlying().(*types.Pointer).Elem()
		id := "free." + fv.Name()
		p := &Ptr{Kind: pCell, Cell: id, Ty: el}
		st.cells[id] = g.freshVal("fv_"+fv.Name(), el)
		st.escaped[id] = true
		v := Val{T: g.ptrTerm(p), S: "Int", Ty: fv.Type(), Ptr: p}
		fr.free = append(fr.free, v)
		if sc := pkgOfFn(fn); sc != nil {
			if inner := sc.Scope().Innermost(fn.Pos()); inner != nil {
				_, o := inner.LookupParent(fv.Name(), fn.Pos())
				if os.Getenv("GOVC_DEBUG") != "" {
					fmt.Fprintf(os.Stderr, "free var %s: fnpos %v obj %v\n", fv.Name(), g.prog.Fset.Position(fn.Pos()), o)
				}
				if o != nil {
					st.src[o] = v
					st.srcAddr[o] = true
				}
			}
		}
	}
	if fn.Signature.Recv() != nil && len(fn.Params) > 0 {
		fr.params["recv"] = fr.vals[fn.Params[0]]
	}
	g.applyPkgInit(fr, st, fn)
	env := g.envFor(fr, st)
	env.old = st
	for _, rq := range append(append([]*Clause{}, fc.Requires...), fc.Inits...) {
		v, err := g.evalBool(rq.Expr, env)
		if err != nil {
			g.contractError(rq, err)
			continue
		}
		g.vc.assume("", v)
	}
	g.panicPre = ""
	if fc.NoPanic && len(fc.PanicUnless) > 0 {
		var ps []string
		for _, pu := range fc.PanicUnless {
			v, err := g.evalBool(pu.Expr, env)
			if err != nil {
				g.contractError(pu, err)
				continue
			}
			ps = append(ps, v)
		}
		g.panicPre = g.vc.define("panicpre", "Bool", sAnd(ps...))
	}
	fr.old = st.Clone()
	res, stOut, exitG := g.execFunc(fr, st, "true")
	g.panicPre = ""

	// ensures
	rvars := map[string]Val{}
	for k, v := range fr.params {
		rvars[k] = v
	}
	results := fn.Signature.Results()
	for i := 0; i < results.Len() && i < len(res); i++ {
		rvars[fmt.Sprintf("ret%d", i)] = res[i]
		if n := results.At(i).Name(); n != "" && n != "_" {
			rvars[n] = res[i]
		}
	}
	if len(res) == 1 {
		rvars["ret"] = res[0]
	}
	penv := g.envFor(fr, stOut)
	penv.vars = rvars
	penv.old = fr.old
	penv.useSrc = false
	for _, en := range fc.Ensures {
		v, err := g.evalBool(en.Expr, penv)
		if err != nil {
			g.contractError(en, err)
			continue
		}
		g.addObligation(&Obligation{Name: fc.Key + ".ensures." + en.Name, Func: fc.Key, Kind: "ensures", Props: en.Props, Guard: exitG, Goal: v, Src: en.Src, Clause: en,
			Pos: fmt.Sprintf("%s:%d", en.File, en.Line)})
	}
	// vacuity canary: the exit must be reachable under the assumptions
	if fc.NoReturn {
		// nothing to check: the function ends the process
	} else if exitG != "false" {
		g.addObligation(&Obligation{Name: fc.Key + ".canary.exit-reachable", Func: fc.Key, Kind: "canary", Guard: exitG, Goal: "false", Expect: "sat",
			Src: "vacuity guard: assumptions and path conditions up to the function exit are satisfiable"})
	} else if len(fr.panics) == 0 {
		g.addObligation(&Obligation{Name: fc.Key + ".canary.exit-reachable", Func: fc.Key, Kind: "canary", Guard: "true", Goal: "false", Static: true, Status: "vacuous",
			Output: "no return is reachable"})
	}
	// call-site clauses that did not bind to any call
	for _, cl := range fc.MapReqs {
		if !g.seenCall[cl] {
			g.addObligation(&Obligation{Name: fmt.Sprintf("%s.mapupdate[%s].binding.%s", fc.Key, cl.Anchor, cl.Name), Func: fc.Key, Kind: "binding", Props: cl.Props,
				Guard: "true", Goal: "false", Static: true, Status: "undischarged", Src: cl.Src,
				Output: "no update of this map in the function (removed or renamed)", Pos: fmt.Sprintf("%s:%d", cl.File, cl.Line)})
		}
	}
	for _, cl := range fc.CallReqs {
		if !g.seenCall[cl] {
			g.addObligation(&Obligation{Name: fmt.Sprintf("%s.call[%s %q].binding.%s", fc.Key, cl.Anchor, cl.Arg, cl.Name), Func: fc.Key, Kind: "binding", Props: cl.Props,
				Guard: "true", Goal: "false", Static: true, Status: "undischarged", Src: cl.Src,
				Output: "no call site matches this clause (the call was removed, renamed or moved out of the function)", Pos: fmt.Sprintf("%s:%d", cl.File, cl.Line)})
		}
	}
	for _, cl := range fc.CallInvs {
		if !g.seenCall[cl] {
			g.addObligation(&Obligation{Name: fmt.Sprintf("%s.call[%s].binding.%s", fc.Key, cl.Anchor, cl.Name), Func: fc.Key, Kind: "binding", Props: cl.Props,
				Guard: "true", Goal: "false", Static: true, Status: "undischarged", Src: cl.Src,
				Output: "no call to a callee with an invoke* step matches this invariant", Pos: fmt.Sprintf("%s:%d", cl.File, cl.Line)})
		}
	}
	for _, inv := range fc.Invs {
		if !g.seenCall[inv] {
			g.addObligation(&Obligation{Name: fmt.Sprintf("%s.loop[%s].binding.%s", fc.Key, inv.Anchor, inv.Name), Func: fc.Key, Kind: "binding", Props: inv.Props,
				Guard: "true", Goal: "false", Static: true, Status: "undischarged", Src: inv.Src,
				Output: "no loop matches this invariant's anchor", Pos: fmt.Sprintf("%s:%d", inv.File, inv.Line)})
		}
	}
	return
}

// paramFacts: well-formedness of inputs that follows from Go's type system.
func (g *Gen) paramFacts(v Val) {
	if v.S == "Str" && v.Ty != nil {
		if a, ok := types.Unalias(v.Ty).Underlying().(*types.Array); ok {
			g.vc.assume("", fmt.Sprintf("(= (slen %s) %d)", v.T, a.Len()))
		}
	}
}

// ---------------------------------------------------------------------------
// Census: static obligations over the whole module's call graph.

func (g *Gen) runCensus(cs *Census) *Obligation {
	o := &Obligation{Name: "census." + cs.Name, Func: "census", Kind: "census", Props: cs.Props, Static: true, Guard: "true", Goal: "true",
		Pos: fmt.Sprintf("%s:%d", cs.File, cs.Line), Src: fmt.Sprintf("callers of %s %q within %v", cs.Callee, cs.Arg, cs.Within)}
	allowed := map[string]bool{}
	for _, w := range cs.Within {
		allowed[w] = true
	}
	var bad []string
	found := 0
	var keys []string
	for k := range g.funcByKey {
		keys = append(keys, k)
	}
	sort.Strings(keys)
	for _, k := range keys {
		fn := g.funcByKey[k]
		p := pkgOfFn(fn)
		if p == nil || !g.isRepoPkg(p) {
			continue
		}
		if len(cs.Pkgs) > 0 {
			in := false
			for _, pn := range cs.Pkgs {
				if pkgName(p) == pn {
					in = true
				}
			}
			if !in {
				continue
			}
		}
		top := fn
		for top.Parent() != nil {
			top = top.Parent()
		}
		topKey := keyOfSSAFunc(top)
		for _, b := range fn.Blocks {
			for _, in := range b.Instrs {
				ci, ok := in.(ssa.CallInstruction)
				if !ok {
					continue
				}
				c := ci.Common()
				ck := staticCalleeKey(c)
				if ck != cs.Callee {
					continue
				}
				if cs.Arg != "" && !constArgContains(c, cs.Arg) {
					if cs.Arg != "?" {
						// calls whose key argument is not a constant may still be the one: count them as matching
						if allArgsConst(c) {
							continue
						}
					}
				}
				found++
				if !allowed[topKey] && !allowed[k] {
					bad = append(bad, fmt.Sprintf("%s (%s)", k, g.posOf(in)))
				}
			}
		}
	}
	if len(bad) > 0 {
		o.Status = "refuted"
		o.Output = "call sites outside the functions under contract: " + strings.Join(bad, "; ")
	} else if found == 0 && !(len(cs.Within) == 1 && cs.Within[0] == "none") {
		o.Status = "undischarged"
		o.Output = "no call site found at all (callee renamed?)"
	} else {
		o.Status = "discharged"
		o.Output = fmt.Sprintf("%d call sites, all inside the listed functions", found)
	}
	o.Solver = "static"
	return o
}

func staticCalleeKey(c *ssa.CallCommon) string {
	if c.IsInvoke() {
		rt := types.Unalias(c.Value.Type())
		tn := typeShortName(rt)
		pk := ""
		if n, ok := rt.(*types.Named); ok && n.Obj().Pkg() != nil {
			pk = pkgName(n.Obj().Pkg())
		} else if c.Method.Pkg() != nil {
			pk = pkgName(c.Method.Pkg())
		}
		if _, ok := rt.(*types.Named); !ok {
			tn = "interface"
		}
		return fmt.Sprintf("%s.%s.%s", pk, tn, c.Method.Name())
	}
	if f := c.StaticCallee(); f != nil {
		return keyOfSSAFunc(f)
	}
	if b, ok := c.Value.(*ssa.Builtin); ok {
		return "builtin." + b.Name()
	}
	return "dynamic"
}

func constArgContains(c *ssa.CallCommon, sub string) bool {
	for _, a := range c.Args {
		if k, ok := a.(*ssa.Const); ok && k.Value != nil && k.Value.Kind() == constant.String {
			if strings.Contains(constant.StringVal(k.Value), sub) {
				return true
			}
		}
	}
	return false
}

func allArgsConst(c *ssa.CallCommon) bool {
	for _, a := range c.Args {
		if a.Type().String() == "string" {
			if _, ok := a.(*ssa.Const); !ok {
				return false
			}
		}
	}
	return true
}

// applyPkgInit symbolically runs the package initializer of the function's package so that package-level
// variables that are never assigned afterwards (checked over the whole module) start with their initial values.
func (g *Gen) applyPkgInit(fr *Frame, st *State, fn *ssa.Function) {
	top := fn
	for top.Parent() != nil {
		top = top.Parent()
	}
	if top.Pkg == nil {
		return
	}
	initFn := top.Pkg.Func("init")
	if initFn == nil || len(initFn.Blocks) == 0 {
		return
	}
	g.computeGlobalStability()
	saveObls, saveNotes := len(g.vc.obls), len(g.vc.notes)
	saveSrc, saveSrcAddr := st.src, st.srcAddr // bindings of the function's own parameters and captured variables
	st.src, st.srcAddr = map[types.Object]Val{}, map[types.Object]bool{}
	g.dry++
	g.inInit = true
	func() {
		defer func() {
			if r := recover(); r != nil {
				g.vc.note("unmodelled", fmt.Sprintf("package initializer of %s could not be executed: %v", top.Pkg.Pkg.Name(), r))
			}
		}()
		st.cells["G$"+pkgName(top.Pkg.Pkg)+".init$guard"] = Val{T: "false", S: "Bool", Ty: types.Typ[types.Bool]}
		cf := g.newFrame(initFn, nil)
		cf.depth = 2
		_, stOut, _ := g.execFunc(cf, st, "true")
		*st = *stOut
	}()
	g.inInit = false
	g.dry--
	g.vc.obls = g.vc.obls[:saveObls]
	g.vc.notes = g.vc.notes[:saveNotes]
	// forget globals that are assigned outside the initializer
	for id := range st.cells {
		if strings.HasPrefix(id, "G$") && g.unstableGlobals[id] {
			delete(st.cells, id)
		}
	}
	for id, v := range st.cells {
		if strings.HasPrefix(id, "G$") && g.unstablePointees[id] {
			if p := g.ptrOf(v); p != nil {
				g.havocPtr(st, p)
			}
		}
	}
	st.src = saveSrc
	st.srcAddr = saveSrcAddr
	g.vc.note("assumed", "package-level variables of "+top.Pkg.Pkg.Name()+" that are never assigned outside the package initializer keep their initial values")
}

// computeGlobalStability scans the module for stores to package-level variables (or through pointers loaded from them).
func (g *Gen) computeGlobalStability() {
	if g.unstableGlobals != nil {
		return
	}
	g.unstableGlobals = map[string]bool{}
	g.unstablePointees = map[string]bool{}
	gid := func(gl *ssa.Global) string { return "G$" + pkgName(gl.Pkg.Pkg) + "." + gl.Name() }
	var rootGlobal func(v ssa.Value, depth int) (*ssa.Global, bool)
	rootGlobal = func(v ssa.Value, depth int) (*ssa.Global, bool) {
		// returns the global a pointer value is derived from, and whether it went through a load of the global
		if depth > 6 {
			return nil, false
		}
		switch x := v.(type) {
		case *ssa.Global:
			return x, false
		case *ssa.FieldAddr:
			gl, _ := rootGlobal(x.X, depth+1)
			if gl != nil {
				return gl, true
			}
		case *ssa.IndexAddr:
			gl, _ := rootGlobal(x.X, depth+1)
			if gl != nil {
				return gl, true
			}
		case *ssa.UnOp:
			if x.Op.String() == "*" {
				gl, _ := rootGlobal(x.X, depth+1)
				if gl != nil {
					return gl, true
				}
			}
		}
		return nil, false
	}
	for _, fn := range g.funcByKey {
		p := pkgOfFn(fn)
		if p == nil || !g.isRepoPkg(p) {
			continue
		}
		isInit := fn.Name() == "init" || strings.HasPrefix(fn.Name(), "init#")
		for _, b := range fn.Blocks {
			for _, in := range b.Instrs {
				var addr ssa.Value
				switch x := in.(type) {
				case *ssa.Store:
					addr = x.Addr
				case *ssa.MapUpdate:
					addr = x.Map
				default:
					continue
				}
				gl, through := rootGlobal(addr, 0)
				if gl == nil || !g.isRepoPkg(gl.Pkg.Pkg) {
					continue
				}
				if isInit && fn.Pkg == gl.Pkg {
					continue
				}
				if through {
					g.unstablePointees[gid(gl)] = true
				} else {
					g.unstableGlobals[gid(gl)] = true
				}
			}
		}
	}
}

// resolveFuncKey finds the function a contract key names. `pkg.outer@"literal"` names the closure passed,
// inside pkg.outer, to a call that also has the string literal as an argument (e.g. mux.HandleFunc("/health", func...)).
func (g *Gen) resolveFuncKey(key string) *ssa.Function {
	if fn, ok := g.funcByKey[key]; ok {
		return fn
	}
	i := strings.Index(key, "@\"")
	if i < 0 || !strings.HasSuffix(key, "\"") {
		return nil
	}
	outer := g.funcByKey[key[:i]]
	lit := key[i+2 : len(key)-1]
	if outer == nil {
		return nil
	}
	var found *ssa.Function
	var visit func(fn *ssa.Function)
	visit = func(fn *ssa.Function) {
		for _, b := range fn.Blocks {
			for _, in := range b.Instrs {
				ci, ok := in.(ssa.CallInstruction)
				if !ok {
					continue
				}
				c := ci.Common()
				hasLit := false
				var clo *ssa.Function
				for _, a := range c.Args {
					if k, ok := a.(*ssa.Const); ok && k.Value != nil && k.Value.Kind() == constant.String && constant.StringVal(k.Value) == lit {
						hasLit = true
					}
					// prefix + "literal"
					if bo, ok := a.(*ssa.BinOp); ok {
						if k, ok := bo.Y.(*ssa.Const); ok && k.Value != nil && k.Value.Kind() == constant.String && constant.StringVal(k.Value) == lit {
							hasLit = true
						}
					}
					if mc, ok := a.(*ssa.MakeClosure); ok {
						clo, _ = mc.Fn.(*ssa.Function)
					}
					if f, ok := a.(*ssa.Function); ok {
						clo = f
					}
					// http.HandlerFunc(closure) conversions
					if ct, ok := a.(*ssa.ChangeType); ok {
						if mc, ok := ct.X.(*ssa.MakeClosure); ok {
							clo, _ = mc.Fn.(*ssa.Function)
						}
					}
				}
				if hasLit && clo != nil && found == nil {
					found = clo
				}
			}
		}
		for _, af := range fn.AnonFuncs {
			visit(af)
		}
	}
	visit(outer)
	if found != nil {
		g.funcByKey[key] = found
		g.keyAlias[found] = key
	}
	return found
}

// theoryConsistency: the prelude axioms together with every spec axiom must be satisfiable (an inconsistent
// theory would discharge everything). Checked on every run with the whole theory, unsliced.
func (g *Gen) theoryConsistency() *VC {
	g.resetVC()
	g.bv = false
	g.curTop = "theory"
	g.axiomsInto(nil, nil)
	// mention every theory symbol so that all prelude axioms have ground terms to work on
	g.vc.decls = append(g.vc.decls, "(declare-const th$s Str)", "(declare-const th$t Str)", "(declare-const th$i Int)",
		"(assert (= (slen (cat (sub th$s 0 th$i) (supd (zeros 3) 1 7))) (+ (slen th$t) (at (byte1 th$i) 0) (maplen$ th$i))))")
	g.addObligation(&Obligation{Name: "theory.consistent", Func: "theory", Kind: "cover", Guard: "true", Goal: "false", Expect: "sat", NoSlice: true,
		Src: "the prelude and all spec axioms are jointly satisfiable (no solver may answer unsat)"})
	return g.vc
}
