package main

// Cone-of-influence slicing of a VC for one obligation: definitions are kept only when referenced,
// assumptions only when they talk about something the goal (transitively) depends on. Dropping
// assumptions can only make a valid obligation harder to prove, never an invalid one provable.

import (
	"strings"
)

type lineInfo struct {
	kind   string // declare, define, assert, other
	name   string // defined / declared name
	syms   []string
	consts []string // user constants (0-ary) mentioned
	funcs  []string // user functions mentioned
}

type sliceIndex struct {
	arity map[string]int // user symbol -> arity (0 = constant)
	decls []lineInfo
	lines []lineInfo
	nDecl int
	nLine int
}

func tokens(s string) []string {
	var out []string
	i := 0
	n := len(s)
	for i < n {
		c := s[i]
		switch {
		case c == ';':
			// comment to end of line
			for i < n && s[i] != '\n' {
				i++
			}
		case c == '(' || c == ')' || c == ' ' || c == '\t' || c == '\n':
			i++
		case c == '"':
			i++
			for i < n && s[i] != '"' {
				i++
			}
			i++
		default:
			j := i
			for j < n && s[j] != '(' && s[j] != ')' && s[j] != ' ' && s[j] != '\t' && s[j] != '\n' {
				j++
			}
			out = append(out, s[i:j])
			i = j
		}
	}
	return out
}

func (vc *VC) index() *sliceIndex {
	if vc.sidx == nil {
		vc.sidx = &sliceIndex{arity: map[string]int{}}
	}
	ix := vc.sidx
	analyze := func(l string) lineInfo {
		li := lineInfo{kind: "other"}
		t := strings.TrimSpace(l)
		toks := tokens(t)
		switch {
		case strings.HasPrefix(t, "(declare-const "):
			li.kind = "declare"
			if len(toks) > 1 {
				li.name = toks[1]
				ix.arity[li.name] = 0
			}
		case strings.HasPrefix(t, "(declare-fun "):
			li.kind = "declare"
			if len(toks) > 1 {
				li.name = toks[1]
				// arity: "(declare-fun f () S)" has zero
				ar := 1
				if strings.Contains(t, li.name+" ()") {
					ar = 0
				}
				ix.arity[li.name] = ar
			}
		case strings.HasPrefix(t, "(declare-datatypes"):
			li.kind = "declare"
			for _, tk := range toks {
				if strings.HasPrefix(tk, "mk$") || strings.HasPrefix(tk, "f$") {
					ix.arity[tk] = 1
				}
			}
		case strings.HasPrefix(t, "(define-fun "):
			li.kind = "define"
			if len(toks) > 1 {
				li.name = toks[1]
				ar := 1
				if strings.Contains(t, li.name+" ()") {
					ar = 0
				}
				ix.arity[li.name] = ar
				li.syms = toks[2:]
			}
		case strings.HasPrefix(t, "(assert"):
			li.kind = "assert"
			li.syms = toks[1:]
		}
		return li
	}
	for ; ix.nDecl < len(vc.decls); ix.nDecl++ {
		ix.decls = append(ix.decls, analyze(vc.decls[ix.nDecl]))
	}
	for ; ix.nLine < len(vc.lines); ix.nLine++ {
		ix.lines = append(ix.lines, analyze(vc.lines[ix.nLine]))
	}
	classify := func(li *lineInfo) {
		li.consts = []string{}
		li.funcs = []string{}
		seen := map[string]bool{}
		for _, s := range li.syms {
			if seen[s] {
				continue
			}
			seen[s] = true
			if ar, ok := ix.arity[s]; ok {
				if ar == 0 {
					li.consts = append(li.consts, s)
				} else {
					li.funcs = append(li.funcs, s)
				}
			}
		}
	}
	for i := range ix.decls {
		classify(&ix.decls[i])
	}
	for i := range ix.lines {
		classify(&ix.lines[i])
	}
	return ix
}

// sliceFor returns the decl and line indexes to keep for an obligation.
func (vc *VC) sliceFor(o *Obligation, extra string) (keepDecl []bool, keepLine []bool) {
	ix := vc.sidx // built single-threaded by prepareSlices before solving
	n := o.Prefix
	if n > len(ix.lines) {
		n = len(ix.lines)
	}
	need := map[string]bool{}
	for _, t := range tokens(o.Guard + " " + o.Goal + " " + extra) {
		need[t] = true
	}
	keepDecl = make([]bool, len(ix.decls))
	keepLine = make([]bool, n)
	try := func(li *lineInfo) bool {
		switch li.kind {
		case "declare":
			return true
		case "define":
			return need[li.name]
		case "assert":
			if len(li.consts) > 0 {
				for _, c := range li.consts {
					if need[c] {
						return true
					}
				}
				return false
			}
			for _, f := range li.funcs {
				if need[f] {
					return true
				}
			}
			return len(li.funcs) == 0 // pure theory fact without user symbols
		}
		return true
	}
	for changed := true; changed; {
		changed = false
		for i := range ix.decls {
			if keepDecl[i] {
				continue
			}
			li := &ix.decls[i]
			if li.kind == "declare" {
				keepDecl[i] = true
				continue
			}
			if try(li) {
				keepDecl[i] = true
				changed = true
				for _, s := range li.syms {
					need[s] = true
				}
			}
		}
		for i := n - 1; i >= 0; i-- {
			if keepLine[i] {
				continue
			}
			li := &ix.lines[i]
			if try(li) {
				keepLine[i] = true
				if li.kind != "declare" {
					changed = true
					for _, s := range li.syms {
						need[s] = true
					}
				}
			}
		}
	}
	return
}
