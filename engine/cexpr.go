package main

// Contract expression language: a small Pratt parser over go/scanner tokens.
//
//   e ::= forall x T, y T :: e | exists x T :: e
//       | e <==> e | e ==> e | e || e | e && e | e (==|!=|<|<=|>|>=) e
//       | e (+|-|*|/|%|<<|>>|&|'|') e | !e | -e | *e
//       | e.f | e[i] | e[lo:hi] | f(args) | old(e) | lit | ident | (e)
//
// `==>` is right associative and binds weaker than `||`; `<==>` weaker still.

import (
	"fmt"
	"go/scanner"
	"go/token"
	"strings"
)

type CExpr struct {
	Op   string   // "id","int","str","bool","call","sel","idx","slice","un","bin","forall","exists","old","char"
	Name string   // identifier / operator / field / callee
	Args []*CExpr // operands
	// binders for quantifiers
	BVars  []string
	BTypes []string
	Trig   []*CExpr // optional multi-pattern {t1, t2} for quantifiers
	Pos    int
}

func (e *CExpr) String() string {
	switch e.Op {
	case "id", "int", "bool":
		return e.Name
	case "str":
		return fmt.Sprintf("%q", e.Name)
	case "char":
		return fmt.Sprintf("'%s'", e.Name)
	case "call":
		var a []string
		for _, x := range e.Args {
			a = append(a, x.String())
		}
		return e.Name + "(" + strings.Join(a, ", ") + ")"
	case "sel":
		return e.Args[0].String() + "." + e.Name
	case "idx":
		return e.Args[0].String() + "[" + e.Args[1].String() + "]"
	case "slice":
		s := e.Args[0].String() + "["
		if e.Args[1] != nil {
			s += e.Args[1].String()
		}
		s += ":"
		if e.Args[2] != nil {
			s += e.Args[2].String()
		}
		return s + "]"
	case "un":
		return e.Name + e.Args[0].String()
	case "bin":
		return "(" + e.Args[0].String() + " " + e.Name + " " + e.Args[1].String() + ")"
	case "forall", "exists":
		var b []string
		for i := range e.BVars {
			b = append(b, e.BVars[i]+" "+e.BTypes[i])
		}
		return "(" + e.Op + " " + strings.Join(b, ", ") + " :: " + e.Args[0].String() + ")"
	case "old":
		return "old(" + e.Args[0].String() + ")"
	}
	return "?"
}

type ctok struct {
	tok token.Token
	lit string
	pos int
}

type cparser struct {
	toks []ctok
	i    int
	src  string
}

func lexContract(src string) ([]ctok, error) {
	fset := token.NewFileSet()
	f := fset.AddFile("", fset.Base(), len(src))
	var s scanner.Scanner
	var errs []string
	s.Init(f, []byte(src), func(pos token.Position, msg string) { errs = append(errs, msg) }, 0)
	var out []ctok
	for {
		pos, tok, lit := s.Scan()
		if tok == token.EOF {
			break
		}
		if tok == token.SEMICOLON && lit == "\n" {
			continue
		}
		out = append(out, ctok{tok, lit, int(pos) - f.Base()})
	}
	if len(errs) > 0 {
		return nil, fmt.Errorf("lex error in %q: %s", src, strings.Join(errs, "; "))
	}
	// merge `==` `>` into ==> and `<=` `=` `>`  into <==>
	var m []ctok
	for i := 0; i < len(out); i++ {
		t := out[i]
		if t.tok == token.LEQ && i+2 < len(out) && out[i+1].tok == token.ASSIGN && out[i+2].tok == token.GTR &&
			out[i+1].pos == t.pos+2 && out[i+2].pos == t.pos+3 {
			m = append(m, ctok{token.ILLEGAL, "<==>", t.pos})
			i += 2
			continue
		}
		if t.tok == token.EQL && i+1 < len(out) && out[i+1].tok == token.GTR && out[i+1].pos == t.pos+2 {
			m = append(m, ctok{token.ILLEGAL, "==>", t.pos})
			i++
			continue
		}
		if t.tok == token.COLON && i+1 < len(out) && out[i+1].tok == token.COLON && out[i+1].pos == t.pos+1 {
			m = append(m, ctok{token.ILLEGAL, "::", t.pos})
			i++
			continue
		}
		m = append(m, t)
	}
	return m, nil
}

func ParseCExpr(src string) (e *CExpr, err error) {
	toks, err := lexContract(src)
	if err != nil {
		return nil, err
	}
	p := &cparser{toks: toks, src: src}
	defer func() {
		if r := recover(); r != nil {
			if s, ok := r.(string); ok {
				err = fmt.Errorf("parse error in %q: %s", src, s)
				return
			}
			panic(r)
		}
	}()
	e = p.expr(0)
	if p.i < len(p.toks) {
		panic(fmt.Sprintf("unexpected %q at %d", p.cur().str(), p.cur().pos))
	}
	return e, nil
}

func (t ctok) str() string {
	if t.lit != "" {
		return t.lit
	}
	return t.tok.String()
}

func (p *cparser) cur() ctok {
	if p.i < len(p.toks) {
		return p.toks[p.i]
	}
	return ctok{token.EOF, "", len(p.src)}
}
func (p *cparser) next() ctok { t := p.cur(); p.i++; return t }
func (p *cparser) isOp(s string) bool {
	t := p.cur()
	if t.tok == token.ILLEGAL {
		return t.lit == s
	}
	return t.tok.String() == s && t.tok != token.IDENT && t.tok != token.STRING && t.tok != token.INT
}
func (p *cparser) expect(s string) {
	if !p.isOp(s) {
		panic(fmt.Sprintf("expected %q, got %q at %d", s, p.cur().str(), p.cur().pos))
	}
	p.i++
}

// binary precedences (higher binds tighter)
var cprec = map[string]int{
	"<==>": 1, "==>": 2, "||": 3, "&&": 4,
	"==": 5, "!=": 5, "<": 5, "<=": 5, ">": 5, ">=": 5,
	"+": 6, "-": 6, "|": 6, "^": 6,
	"*": 7, "/": 7, "%": 7, "<<": 7, ">>": 7, "&": 7,
}

func (p *cparser) binop() (string, int) {
	t := p.cur()
	var s string
	if t.tok == token.ILLEGAL {
		s = t.lit
	} else if t.tok.IsOperator() {
		s = t.tok.String()
	}
	if pr, ok := cprec[s]; ok {
		return s, pr
	}
	return "", 0
}

func (p *cparser) expr(minPrec int) *CExpr {
	t := p.cur()
	if t.tok == token.IDENT && (t.lit == "forall" || t.lit == "exists") && p.i+1 < len(p.toks) && p.toks[p.i+1].tok == token.IDENT {
		p.i++
		q := &CExpr{Op: t.lit, Pos: t.pos}
		for {
			v := p.next()
			if v.tok != token.IDENT {
				panic("binder name expected")
			}
			ty := p.typeName()
			q.BVars = append(q.BVars, v.lit)
			q.BTypes = append(q.BTypes, ty)
			if p.isOp(",") {
				p.i++
				continue
			}
			break
		}
		if p.isOp("{") {
			p.i++
			for !p.isOp("}") {
				q.Trig = append(q.Trig, p.expr(0))
				if p.isOp(",") {
					p.i++
				}
			}
			p.expect("}")
		}
		p.expect("::")
		q.Args = []*CExpr{p.expr(0)}
		return q
	}
	lhs := p.unary()
	for {
		op, pr := p.binop()
		if op == "" || pr < minPrec {
			return lhs
		}
		p.i++
		var rhs *CExpr
		if op == "==>" || op == "<==>" {
			rhs = p.expr(pr) // right assoc
		} else {
			rhs = p.expr(pr + 1)
		}
		lhs = &CExpr{Op: "bin", Name: op, Args: []*CExpr{lhs, rhs}, Pos: lhs.Pos}
	}
}

// typeName parses a (possibly qualified / pointer / slice) type name used in binders.
func (p *cparser) typeName() string {
	s := ""
	for {
		t := p.cur()
		if t.tok == token.MUL || t.tok == token.LBRACK || t.tok == token.RBRACK {
			s += t.tok.String()
			p.i++
			continue
		}
		if t.tok == token.INT && strings.HasSuffix(s, "[") { // array length, e.g. [32]byte
			s += t.lit
			p.i++
			continue
		}
		break
	}
	t := p.next()
	if t.tok != token.IDENT {
		panic("type name expected")
	}
	s += t.lit
	for p.isOp(".") {
		p.i++
		s += "." + p.next().lit
	}
	return s
}

func (p *cparser) unary() *CExpr {
	t := p.cur()
	switch {
	case p.isOp("!"), p.isOp("-"), p.isOp("*"), p.isOp("&"):
		p.i++
		x := p.unary()
		return &CExpr{Op: "un", Name: t.tok.String(), Args: []*CExpr{x}, Pos: t.pos}
	}
	return p.postfix(p.primary())
}

func (p *cparser) primary() *CExpr {
	t := p.next()
	switch t.tok {
	case token.INT:
		return &CExpr{Op: "int", Name: t.lit, Pos: t.pos}
	case token.STRING:
		s := t.lit
		if len(s) >= 2 {
			if s[0] == '`' {
				s = s[1 : len(s)-1]
			} else {
				var err error
				s, err = unquote(s)
				if err != nil {
					panic("bad string literal " + t.lit)
				}
			}
		}
		return &CExpr{Op: "str", Name: s, Pos: t.pos}
	case token.CHAR:
		return &CExpr{Op: "char", Name: t.lit[1 : len(t.lit)-1], Pos: t.pos}
	case token.IDENT:
		if t.lit == "true" || t.lit == "false" {
			return &CExpr{Op: "bool", Name: t.lit, Pos: t.pos}
		}
		if t.lit == "old" && p.isOp("(") {
			p.i++
			x := p.expr(0)
			p.expect(")")
			return &CExpr{Op: "old", Args: []*CExpr{x}, Pos: t.pos}
		}
		return &CExpr{Op: "id", Name: t.lit, Pos: t.pos}
	case token.LPAREN:
		x := p.expr(0)
		p.expect(")")
		return x
	}
	panic(fmt.Sprintf("unexpected %q at %d", t.str(), t.pos))
}

func (p *cparser) postfix(x *CExpr) *CExpr {
	for {
		switch {
		case p.isOp("."):
			p.i++
			f := p.next()
			if f.tok != token.IDENT {
				panic("field name expected")
			}
			x = &CExpr{Op: "sel", Name: f.lit, Args: []*CExpr{x}, Pos: x.Pos}
		case p.isOp("("):
			p.i++
			var args []*CExpr
			for !p.isOp(")") {
				args = append(args, p.expr(0))
				if p.isOp(",") {
					p.i++
				}
			}
			p.expect(")")
			name := ""
			switch x.Op {
			case "id":
				name = x.Name
			case "sel": // pkg.Func or recv.method — keep dotted name
				name = x.String()
			default:
				panic("call of non-name")
			}
			x = &CExpr{Op: "call", Name: name, Args: args, Pos: x.Pos}
		case p.isOp("["):
			p.i++
			var lo, hi *CExpr
			if !p.isOp(":") {
				lo = p.expr(0)
			}
			if p.isOp(":") {
				p.i++
				if !p.isOp("]") {
					hi = p.expr(0)
				}
				p.expect("]")
				x = &CExpr{Op: "slice", Args: []*CExpr{x, lo, hi}, Pos: x.Pos}
			} else {
				p.expect("]")
				x = &CExpr{Op: "idx", Args: []*CExpr{x, lo}, Pos: x.Pos}
			}
		default:
			return x
		}
	}
}

func unquote(s string) (string, error) {
	// strconv.Unquote without importing strconv in several files
	return strconvUnquote(s)
}
