package main

// Contract files: line oriented, every line starts with `//@` (in .go files guarded by the
// build tag) or is taken verbatim (in /verif/specs/*.spec, where `#` starts a comment).
//
//   sort Name
//   pure func name(a T, b U) R [= expr]
//   axiom name: expr
//   lemma [C01,C02] name: expr
//   ghost var name T
//   func <key> [mode bv] [nopanic] [props C01 C02] [inline]
//   assume func <key> [params a b c] [props ...]          (trusted contract)
//     requires [Cxx] name: expr
//     ensures  [Cxx] name: expr
//     modifies lvalue, lvalue, ...
//     invariant "<loop anchor>" name: expr
//     decreases "<loop anchor>" expr
//     call <callee key> ["const arg substring"] requires [Cxx] name: expr
//     call <callee key> cover                              (call site must exist)
//     atexit / cover etc. see vcgen
//   census [Cxx] name: callers <callee key> within <key>, <key>, ...
//
// A trailing backslash continues a clause on the next line.

import (
	"fmt"
	"os"
	"path/filepath"
	"regexp"
	"strings"
)

type Clause struct {
	Kind    string // requires, ensures, invariant, decreases, callreq, callcover
	Name    string
	Props   []string
	Expr    *CExpr
	Src     string
	Anchor  string // loop anchor or callee key
	Arg     string // call-site distinguishing constant
	When    *CExpr // bind: syntactic guard a == b
	InScope bool   // returns? : checked only at return sites where every identifier of the clause is in scope
	File    string
	Line    int
}

type FuncContract struct {
	Key         string
	Assumed     bool
	ModeBV      bool
	NoPanic     bool
	NoReturn    bool // the function never returns normally (ends in os.Exit): no exit-reachability canary
	Inline      bool
	Props       []string
	Params      []string // explicit parameter names for external functions
	Requires    []*Clause
	Ensures     []*Clause
	Defines     []*Clause // definitional postconditions: assumed at call sites, introduce a spec predicate as the post-image of the function
	PanicUnless []*Clause // the callee panics unless this holds: an obligation in nopanic callers, an assumption afterwards (execution continues only then)
	Inits       []*Clause // assumed at entry when verifying this function only: the local ghost history starts empty
	Returns     []*Clause // obligations at every return site, over the source variables in scope there
	Modifies    []*CExpr
	ModSrc      []string
	Escapes     bool // `escapes`: besides the listed frame, the callee may write through its pointer arguments (the default for external callees without a contract)
	Invs        []*Clause
	Decr        []*Clause
	CallReqs    []*Clause
	Binds       []*Clause // call <callee> bind name = expr [when a == b]: snapshot a value right after a call, usable by later clauses
	MapReqs     []*Clause // mapupdate <field-or-variable> requires ...: obligations at every m[k] = v on that map
	Ghosts      []*Clause // unused
	CallInvs    []*Clause // call <callee> invariant: invariants over the repeated invocations an assumed higher-order callee makes (invoke*)
	Steps       []*Step   // fresh / invoke steps of assumed higher-order contracts, in order
	File        string
	Line        int
	Used        bool
}

// Step of an assumed contract executed between requires and ensures.
type Step struct {
	Kind string // fresh | invoke
	Name string // fresh: variable name; invoke: parameter holding the function
	Type string // fresh: type name (pointer to struct)
	Args []*CExpr
	When *CExpr
	As   string // invoke f(args) as name: the closure's first result is bound to name for the ensures clauses (only without when/star)
	Star bool   // invoke*: the function value may be invoked any number of times (caller-side `call ... invariant` clauses are the loop invariants)
	Src  string
	File string
	Line int
}

// GuardedBy: fields of a struct that may only be accessed while a mutex field of the same object is held.
type GuardedBy struct {
	Struct string
	Mutex  string
	Fields []string
	Props  []string
	File   string
	Line   int
}

type GhostField struct {
	Struct string // struct key, e.g. cryptobyte.Builder
	Name   string
	Type   string
}

type PureFunc struct {
	Name    string
	Params  []string
	PTypes  []string
	Result  string
	Body    *CExpr
	BodySrc string
	File    string
	Line    int
}

type Axiom struct {
	Name  string
	Props []string
	Expr  *CExpr
	Src   string
	Lemma bool
	File  string
	Line  int
}

type GhostVar struct {
	Name string
	Type string
}

type Census struct {
	Name   string
	Props  []string
	Callee string // callee key pattern
	Arg    string
	Within []string // function keys allowed to contain such calls
	Pkgs   []string // package-name scope (default: all repo packages)
	File   string
	Line   int
}

type Contracts struct {
	Sorts    []string
	Pures    map[string]*PureFunc
	PureOrd  []string
	Axioms   []*Axiom
	Ghosts   map[string]*GhostVar
	GhostOrd []string
	Funcs    map[string]*FuncContract
	FuncOrd  []string
	Census   []*Census
	GFields  []*GhostField
	Guards   []*GuardedBy
	Errors   []string
}

func NewContracts() *Contracts {
	return &Contracts{Pures: map[string]*PureFunc{}, Ghosts: map[string]*GhostVar{}, Funcs: map[string]*FuncContract{}}
}

var reTag = regexp.MustCompile(`^\[([A-Za-z0-9_, ]+)\]\s*`)
var reName = regexp.MustCompile(`^([A-Za-z0-9_.\-]+)\s*:\s*`)

func splitTags(s string) ([]string, string) {
	if m := reTag.FindStringSubmatch(s); m != nil {
		var tags []string
		for _, t := range strings.Split(m[1], ",") {
			t = strings.TrimSpace(t)
			if t != "" {
				tags = append(tags, t)
			}
		}
		return tags, s[len(m[0]):]
	}
	return nil, s
}

func splitName(s string) (string, string) {
	if m := reName.FindStringSubmatch(s); m != nil && !strings.HasPrefix(s[len(m[1]):], "::") {
		return m[1], s[len(m[0]):]
	}
	return "", s
}

func (c *Contracts) errf(file string, line int, f string, a ...any) {
	c.Errors = append(c.Errors, fmt.Sprintf("%s:%d: %s", file, line, fmt.Sprintf(f, a...)))
}

// LoadFile reads one contract file.
func (c *Contracts) LoadFile(path string) error {
	data, err := os.ReadFile(path)
	if err != nil {
		return err
	}
	isGo := strings.HasSuffix(path, ".go")
	var lines []string
	var lnos []int
	for i, raw := range strings.Split(string(data), "\n") {
		l := raw
		if isGo {
			t := strings.TrimSpace(l)
			if !strings.HasPrefix(t, "//@") {
				continue
			}
			l = strings.TrimPrefix(t, "//@")
		} else {
			if j := strings.Index(l, "#"); j >= 0 && !strings.Contains(l[:j], "\"") {
				l = l[:j]
			}
		}
		if strings.TrimSpace(l) == "" {
			continue
		}
		// continuation
		if len(lines) > 0 && strings.HasSuffix(strings.TrimRight(lines[len(lines)-1], " \t"), "\\") {
			prev := strings.TrimRight(lines[len(lines)-1], " \t")
			lines[len(lines)-1] = prev[:len(prev)-1] + " " + strings.TrimSpace(l)
			continue
		}
		lines = append(lines, l)
		lnos = append(lnos, i+1)
	}
	var cur *FuncContract
	for i, l := range lines {
		ln := lnos[i]
		t := strings.TrimSpace(l)
		word, rest := cutWord(t)
		switch word {
		case "sort":
			c.Sorts = append(c.Sorts, strings.TrimSpace(rest))
			cur = nil
		case "pure":
			cur = nil
			c.parsePure(path, ln, rest)
		case "axiom", "lemma":
			cur = nil
			tags, r := splitTags(rest)
			name, r := splitName(r)
			e, err := ParseCExpr(r)
			if err != nil {
				c.errf(path, ln, "%v", err)
				continue
			}
			c.Axioms = append(c.Axioms, &Axiom{Name: name, Props: tags, Expr: e, Src: r, Lemma: word == "lemma", File: path, Line: ln})
		case "ghost":
			cur = nil
			w2, r := cutWord(rest)
			if w2 == "field" {
				// ghost field pkg.Struct.name type
				fq, ty := cutWord(r)
				i := strings.LastIndex(fq, ".")
				if i < 0 {
					c.errf(path, ln, "ghost field needs pkg.Struct.name")
					continue
				}
				c.GFields = append(c.GFields, &GhostField{Struct: fq[:i], Name: fq[i+1:], Type: strings.TrimSpace(ty)})
				continue
			}
			if w2 != "var" {
				c.errf(path, ln, "expected `ghost var` or `ghost field`")
				continue
			}
			name, ty := cutWord(r)
			c.Ghosts[name] = &GhostVar{Name: name, Type: strings.TrimSpace(ty)}
			c.GhostOrd = append(c.GhostOrd, name)
		case "census":
			cur = nil
			c.parseCensus(path, ln, rest)
		case "guarded": // guarded [Cxx] pkg.Struct.mutex: f1, f2
			cur = nil
			tags, r := splitTags(rest)
			i := strings.Index(r, ":")
			if i < 0 {
				c.errf(path, ln, "guarded needs `pkg.Struct.mutex: fields`")
				continue
			}
			fq := strings.TrimSpace(r[:i])
			j := strings.LastIndex(fq, ".")
			gb := &GuardedBy{Struct: fq[:j], Mutex: fq[j+1:], Props: tags, File: path, Line: ln}
			for _, f := range strings.Split(r[i+1:], ",") {
				if f = strings.TrimSpace(f); f != "" {
					gb.Fields = append(gb.Fields, f)
				}
			}
			c.Guards = append(c.Guards, gb)
		case "func", "assume":
			assumed := false
			if word == "assume" {
				w2, r := cutWord(rest)
				if w2 != "func" {
					c.errf(path, ln, "expected `assume func`")
					continue
				}
				rest = r
				assumed = true
			}
			// a key may contain a quoted literal with spaces: pkg.fn@"GET /x"
			if i := strings.Index(rest, "@\""); i >= 0 {
				if j := strings.Index(rest[i+2:], "\""); j >= 0 {
					end := i + 2 + j + 1
					rest = strings.ReplaceAll(rest[:end], " ", "\x00") + rest[end:]
				}
			}
			fields := strings.Fields(rest)
			for k := range fields {
				fields[k] = strings.ReplaceAll(fields[k], "\x00", " ")
			}
			if len(fields) == 0 {
				c.errf(path, ln, "missing function key")
				continue
			}
			fc := &FuncContract{Key: fields[0], Assumed: assumed, File: path, Line: ln}
			for j := 1; j < len(fields); j++ {
				switch fields[j] {
				case "mode":
					if j+1 < len(fields) && fields[j+1] == "bv" {
						fc.ModeBV = true
						j++
					}
				case "nopanic":
					fc.NoPanic = true
				case "noreturn":
					fc.NoReturn = true
				case "inline":
					fc.Inline = true
				case "props":
					for j+1 < len(fields) && regexp.MustCompile(`^C[0-9]+$`).MatchString(fields[j+1]) {
						fc.Props = append(fc.Props, fields[j+1])
						j++
					}
				case "params":
					for j+1 < len(fields) && fields[j+1] != "props" && fields[j+1] != "mode" && fields[j+1] != "nopanic" {
						fc.Params = append(fc.Params, fields[j+1])
						j++
					}
				default:
					c.errf(path, ln, "unknown function attribute %q", fields[j])
				}
			}
			if old, ok := c.Funcs[fc.Key]; ok {
				c.errf(path, ln, "duplicate contract for %s (first at %s:%d)", fc.Key, old.File, old.Line)
				continue
			}
			c.Funcs[fc.Key] = fc
			c.FuncOrd = append(c.FuncOrd, fc.Key)
			cur = fc
		case "requires", "ensures", "returns", "returns?", "defines", "init", "panics-unless":
			if cur == nil {
				c.errf(path, ln, "%s outside a function contract", word)
				continue
			}
			tags, r := splitTags(rest)
			name, r := splitName(r)
			e, err := ParseCExpr(r)
			if err != nil {
				c.errf(path, ln, "%v", err)
				continue
			}
			cl := &Clause{Kind: word, Name: name, Props: tags, Expr: e, Src: r, File: path, Line: ln}
			if cl.Name == "" {
				cl.Name = fmt.Sprintf("L%d", ln)
			}
			switch word {
			case "requires":
				cur.Requires = append(cur.Requires, cl)
			case "ensures":
				cur.Ensures = append(cur.Ensures, cl)
			case "defines":
				cur.Defines = append(cur.Defines, cl)
			case "init":
				cur.Inits = append(cur.Inits, cl)
			case "panics-unless":
				cur.PanicUnless = append(cur.PanicUnless, cl)
			default:
				cl.Kind = "returns"
				cl.InScope = word == "returns?"
				cur.Returns = append(cur.Returns, cl)
			}
		case "escapes":
			if cur == nil {
				c.errf(path, ln, "escapes outside a function contract")
				continue
			}
			cur.Escapes = true
		case "modifies":
			if cur == nil {
				c.errf(path, ln, "modifies outside a function contract")
				continue
			}
			for _, part := range splitTopLevel(rest, ',') {
				part = strings.TrimSpace(part)
				if part == "" {
					continue
				}
				e, err := ParseCExpr(part)
				if err != nil {
					c.errf(path, ln, "%v", err)
					continue
				}
				cur.Modifies = append(cur.Modifies, e)
				cur.ModSrc = append(cur.ModSrc, part)
			}
		case "fresh":
			if cur == nil {
				c.errf(path, ln, "fresh outside a function contract")
				continue
			}
			n, ty := cutWord(rest)
			cur.Steps = append(cur.Steps, &Step{Kind: "fresh", Name: n, Type: strings.TrimSpace(ty), File: path, Line: ln})
		case "invoke", "invoke*":
			if cur == nil {
				c.errf(path, ln, "invoke outside a function contract")
				continue
			}
			// invoke f(args) [when cond]
			callSrc, whenSrc := rest, ""
			if i := strings.Index(rest, " when "); i >= 0 {
				callSrc, whenSrc = rest[:i], rest[i+6:]
			}
			asName := ""
			if i := strings.Index(callSrc, " as "); i >= 0 {
				callSrc, asName = callSrc[:i], strings.TrimSpace(callSrc[i+4:])
			}
			ce, err := ParseCExpr(callSrc)
			if err != nil || ce.Op != "call" {
				c.errf(path, ln, "invoke needs f(args): %v", err)
				continue
			}
			stp := &Step{Kind: "invoke", Name: ce.Name, Args: ce.Args, Src: rest, File: path, Line: ln, Star: word == "invoke*", As: asName}
			if whenSrc != "" {
				we, err := ParseCExpr(whenSrc)
				if err != nil {
					c.errf(path, ln, "%v", err)
					continue
				}
				stp.When = we
			}
			cur.Steps = append(cur.Steps, stp)
		case "invariant", "decreases":
			if cur == nil {
				c.errf(path, ln, "%s outside a function contract", word)
				continue
			}
			anchor, r, ok := cutQuoted(rest)
			if !ok {
				c.errf(path, ln, "%s needs a quoted loop anchor", word)
				continue
			}
			tags, r := splitTags(r)
			name, r := splitName(r)
			e, err := ParseCExpr(r)
			if err != nil {
				c.errf(path, ln, "%v", err)
				continue
			}
			cl := &Clause{Kind: word, Name: name, Props: tags, Expr: e, Src: r, Anchor: anchor, File: path, Line: ln}
			if cl.Name == "" {
				cl.Name = fmt.Sprintf("L%d", ln)
			}
			if word == "invariant" {
				cur.Invs = append(cur.Invs, cl)
			} else {
				cur.Decr = append(cur.Decr, cl)
			}
		case "mapupdate":
			if cur == nil {
				c.errf(path, ln, "mapupdate clause outside a function contract")
				continue
			}
			target, r := cutWord(rest)
			kind, r := cutWord(r)
			if kind != "requires" {
				c.errf(path, ln, "mapupdate <map> requires ...")
				continue
			}
			tags, r := splitTags(r)
			name, r := splitName(r)
			e, err := ParseCExpr(r)
			if err != nil {
				c.errf(path, ln, "%v", err)
				continue
			}
			cl := &Clause{Kind: "mapreq", Name: name, Props: tags, Expr: e, Src: r, Anchor: target, File: path, Line: ln}
			if cl.Name == "" {
				cl.Name = fmt.Sprintf("L%d", ln)
			}
			cur.MapReqs = append(cur.MapReqs, cl)
		case "call":
			if cur == nil {
				c.errf(path, ln, "call clause outside a function contract")
				continue
			}
			callee, r := cutWord(rest)
			arg := ""
			if a, r2, ok := cutQuoted(r); ok {
				arg, r = a, r2
			}
			kind, r := cutWord(r)
			switch kind {
			case "requires":
				tags, r := splitTags(r)
				name, r := splitName(r)
				e, err := ParseCExpr(r)
				if err != nil {
					c.errf(path, ln, "%v", err)
					continue
				}
				cl := &Clause{Kind: "callreq", Name: name, Props: tags, Expr: e, Src: r, Anchor: callee, Arg: arg, File: path, Line: ln}
				if cl.Name == "" {
					cl.Name = fmt.Sprintf("L%d", ln)
				}
				cur.CallReqs = append(cur.CallReqs, cl)
			case "bind":
				// bind name = expr [when a == b]
				nm, r2 := cutWord(r)
				r2 = strings.TrimSpace(r2)
				if !strings.HasPrefix(r2, "=") {
					c.errf(path, ln, "call ... bind name = expr")
					continue
				}
				r2 = strings.TrimSpace(r2[1:])
				whenSrc := ""
				if i := strings.Index(r2, " when "); i >= 0 {
					whenSrc = r2[i+6:]
					r2 = r2[:i]
				}
				e, err := ParseCExpr(r2)
				if err != nil {
					c.errf(path, ln, "%v", err)
					continue
				}
				cl := &Clause{Kind: "bind", Name: nm, Expr: e, Src: r2, Anchor: callee, Arg: arg, File: path, Line: ln}
				if whenSrc != "" {
					we, err := ParseCExpr(whenSrc)
					if err != nil {
						c.errf(path, ln, "%v", err)
						continue
					}
					cl.When = we
				}
				cur.Binds = append(cur.Binds, cl)
			case "invariant":
				tags, r := splitTags(r)
				name, r := splitName(r)
				e, err := ParseCExpr(r)
				if err != nil {
					c.errf(path, ln, "%v", err)
					continue
				}
				cl := &Clause{Kind: "callinv", Name: name, Props: tags, Expr: e, Src: r, Anchor: callee, Arg: arg, File: path, Line: ln}
				if cl.Name == "" {
					cl.Name = fmt.Sprintf("L%d", ln)
				}
				cur.CallInvs = append(cur.CallInvs, cl)
			case "cover":
				tags, _ := splitTags(r)
				cur.CallReqs = append(cur.CallReqs, &Clause{Kind: "callcover", Name: "exists", Props: tags, Anchor: callee, Arg: arg, File: path, Line: ln})
			default:
				c.errf(path, ln, "unknown call clause kind %q", kind)
			}
		default:
			c.errf(path, ln, "unknown directive %q", word)
		}
	}
	return nil
}

func (c *Contracts) parsePure(path string, ln int, rest string) {
	w, r := cutWord(rest)
	if w != "func" {
		c.errf(path, ln, "expected `pure func`")
		return
	}
	op := strings.Index(r, "(")
	cp := matchParen(r, op)
	if op < 0 || cp < 0 {
		c.errf(path, ln, "bad pure func signature")
		return
	}
	pf := &PureFunc{Name: strings.TrimSpace(r[:op]), File: path, Line: ln}
	for _, prm := range splitTopLevel(r[op+1:cp], ',') {
		prm = strings.TrimSpace(prm)
		if prm == "" {
			continue
		}
		n, ty := cutWord(prm)
		pf.Params = append(pf.Params, n)
		pf.PTypes = append(pf.PTypes, strings.TrimSpace(ty))
	}
	// fix up "a, b T" style
	for i := len(pf.PTypes) - 1; i >= 0; i-- {
		if pf.PTypes[i] == "" && i+1 < len(pf.PTypes) {
			pf.PTypes[i] = pf.PTypes[i+1]
		}
	}
	tail := strings.TrimSpace(r[cp+1:])
	if i := strings.Index(tail, "="); i >= 0 && !strings.HasPrefix(tail[i:], "==") {
		pf.Result = strings.TrimSpace(tail[:i])
		pf.BodySrc = strings.TrimSpace(tail[i+1:])
		e, err := ParseCExpr(pf.BodySrc)
		if err != nil {
			c.errf(path, ln, "%v", err)
			return
		}
		pf.Body = e
	} else {
		pf.Result = tail
	}
	if pf.Result == "" {
		pf.Result = "bool"
	}
	if _, dup := c.Pures[pf.Name]; dup {
		c.errf(path, ln, "duplicate pure func %s", pf.Name)
		return
	}
	c.Pures[pf.Name] = pf
	c.PureOrd = append(c.PureOrd, pf.Name)
}

// census [Cxx] name: callers <calleekey> ["arg"] within k1, k2 [in pkg1 pkg2]
func (c *Contracts) parseCensus(path string, ln int, rest string) {
	tags, r := splitTags(rest)
	name, r := splitName(r)
	w, r := cutWord(r)
	if w != "callers" {
		c.errf(path, ln, "census: expected `callers`")
		return
	}
	callee, r := cutWord(r)
	cs := &Census{Name: name, Props: tags, Callee: callee, File: path, Line: ln}
	if a, r2, ok := cutQuoted(r); ok {
		cs.Arg, r = a, r2
	}
	w, r = cutWord(r)
	if w != "within" {
		c.errf(path, ln, "census: expected `within`")
		return
	}
	scope := ""
	if i := strings.Index(r, " in "); i >= 0 {
		scope = r[i+4:]
		r = r[:i]
	}
	for _, k := range strings.Split(r, ",") {
		k = strings.TrimSpace(k)
		if k != "" {
			cs.Within = append(cs.Within, k)
		}
	}
	cs.Pkgs = strings.Fields(scope)
	c.Census = append(c.Census, cs)
}

func cutWord(s string) (string, string) {
	s = strings.TrimSpace(s)
	i := strings.IndexAny(s, " \t")
	if i < 0 {
		return s, ""
	}
	return s[:i], strings.TrimSpace(s[i:])
}

func cutQuoted(s string) (string, string, bool) {
	s = strings.TrimSpace(s)
	if !strings.HasPrefix(s, "\"") {
		return "", s, false
	}
	for i := 1; i < len(s); i++ {
		if s[i] == '\\' {
			i++
			continue
		}
		if s[i] == '"' {
			u, err := strconvUnquote(s[:i+1])
			if err != nil {
				return "", s, false
			}
			return u, strings.TrimSpace(s[i+1:]), true
		}
	}
	return "", s, false
}

func matchParen(s string, open int) int {
	if open < 0 {
		return -1
	}
	d := 0
	for i := open; i < len(s); i++ {
		switch s[i] {
		case '(':
			d++
		case ')':
			d--
			if d == 0 {
				return i
			}
		}
	}
	return -1
}

func splitTopLevel(s string, sep byte) []string {
	var out []string
	d := 0
	last := 0
	inStr := false
	for i := 0; i < len(s); i++ {
		ch := s[i]
		if inStr {
			if ch == '\\' {
				i++
			} else if ch == '"' {
				inStr = false
			}
			continue
		}
		switch ch {
		case '"':
			inStr = true
		case '(', '[':
			d++
		case ')', ']':
			d--
		default:
			if ch == sep && d == 0 {
				out = append(out, s[last:i])
				last = i + 1
			}
		}
	}
	out = append(out, s[last:])
	return out
}

// LoadAll loads /verif/specs/*.spec and every *_verif.go contract file under repo.
func LoadAllContracts(specDir, repo string) (*Contracts, []string, error) {
	c := NewContracts()
	var files []string
	specs, _ := filepath.Glob(filepath.Join(specDir, "*.spec"))
	files = append(files, specs...)
	filepath.Walk(repo, func(p string, info os.FileInfo, err error) error {
		if err != nil {
			return nil
		}
		if info.IsDir() && (info.Name() == ".git" || info.Name() == "testdata") {
			return filepath.SkipDir
		}
		if !info.IsDir() && strings.HasSuffix(p, "_verif.go") {
			files = append(files, p)
		}
		return nil
	})
	for _, f := range files {
		if err := c.LoadFile(f); err != nil {
			return nil, files, err
		}
	}
	if len(c.Errors) > 0 {
		return c, files, fmt.Errorf("contract errors:\n  %s", strings.Join(c.Errors, "\n  "))
	}
	return c, files, nil
}
