package main

// Calls with built-in semantics: the error-wrapping theory (fmt.Errorf %w, errors.New, errors.Is),
// a few pure standard-library functions on byte strings, sync.Mutex ghost state, and `invokes` for
// assumed higher-order functions.

import (
	"fmt"
	"go/constant"
	"go/types"
	"strings"

	"golang.org/x/tools/go/ssa"
)

func (g *Gen) declIs() {
	if !g.vc.declSet["p$Is"] {
		g.vc.decl("p$Is", "(declare-fun p$Is (Int Int) Bool)")
		// errors.Is(e, e) holds for comparable error values (all sentinels and pointer errors)
		g.vc.decls = append(g.vc.decls, "(assert (forall ((e Int)) (! (p$Is e e) :pattern ((p$Is e e)))))")
	}
}

// wVerbArgs returns the indexes of the arguments consumed by %w verbs in a format string.
func wVerbArgs(format string) (ws []int, n int) {
	arg := 0
	for i := 0; i < len(format); i++ {
		if format[i] != '%' {
			continue
		}
		i++
		// flags, width, precision
		for i < len(format) && strings.ContainsRune("+-# 0123456789.*[]", rune(format[i])) {
			if format[i] == '*' {
				arg++
			}
			i++
		}
		if i >= len(format) {
			break
		}
		if format[i] == '%' {
			continue
		}
		if format[i] == 'w' {
			ws = append(ws, arg)
		}
		arg++
	}
	return ws, arg
}

func (g *Gen) specialCall(fr *Frame, st *State, site ssa.Instruction, c *ssa.CallCommon, key string, args []Val, r string) (Val, bool) {
	resTy := func() types.Type {
		if v, ok := site.(ssa.Value); ok {
			return v.Type()
		}
		return nil
	}
	switch key {
	case "fmt.Errorf":
		g.declIs()
		// a newly allocated error value: distinct from every error that existed before (sentinels included)
		res := Val{T: g.newRef(fr.id + "err"), S: "Int", Ty: resTy()}
		var wrapped []string
		format, haveFormat := "", false
		if k, ok := c.Args[0].(*ssa.Const); ok && k.Value != nil && k.Value.Kind() == constant.String {
			format, haveFormat = constant.StringVal(k.Value), true
		} else {
			// the format may be a parameter of an inlined helper bound to a literal
			for lit, name := range g.strLits {
				if name == args[0].T {
					format, haveFormat = lit, true
				}
			}
			if args[0].T == "empty$" {
				format, haveFormat = "", true
			}
		}
		if haveFormat && len(args) >= 2 {
			ws, _ := wVerbArgs(format)
			el := args[1].Elems
			known := true
			for _, w := range ws {
				if w < len(el) && el[w].T != "" && el[w].S == "Int" {
					wrapped = append(wrapped, el[w].T)
				} else {
					known = false
				}
			}
			if known {
				var alts []string
				alts = append(alts, fmt.Sprintf("(= %s t)", res.T))
				for _, w := range wrapped {
					alts = append(alts, fmt.Sprintf("(p$Is %s t)", w))
				}
				g.vc.assume("", fmt.Sprintf("(forall ((t Int)) (! (= (p$Is %s t) %s) :pattern ((p$Is %s t))))", res.T, sOr(alts...), res.T))
			}
		}
		return res, true
	case "fmt.Sprintf":
		res := g.freshVal(fr.id+"sprintf", resTy())
		if k, ok := c.Args[0].(*ssa.Const); ok && k.Value != nil && k.Value.Kind() == constant.String {
			f := constant.StringVal(k.Value)
			if i := strings.Index(f, "%"); i > 0 {
				g.vc.decl("p$hasPrefix", "(declare-fun p$hasPrefix (Str Str) Bool)")
				g.vc.assume("", fmt.Sprintf("(p$hasPrefix %s %s)", res.T, g.strLit(f[:i])))
			}
		}
		g.escapeArgs(fr, st, c)
		return res, true
	case "errors.New":
		g.declIs()
		res := Val{T: g.newRef(fr.id + "err"), S: "Int", Ty: resTy()}
		g.vc.assume("", fmt.Sprintf("(forall ((t Int)) (! (= (p$Is %s t) (= %s t)) :pattern ((p$Is %s t))))", res.T, res.T, res.T))
		return res, true
	case "errors.As":
		// errors.As(err, &target): true iff some error in err's chain has target's type; the target is then written
		g.vc.decl("p$errAs", "(declare-fun p$errAs (Int Int) Bool)")
		tag := 0
		if len(c.Args) == 2 {
			targetT := c.Args[1].Type()
			if mi, ok := c.Args[1].(*ssa.MakeInterface); ok {
				targetT = mi.X.Type()
			}
			if pt, ok := types.Unalias(targetT).Underlying().(*types.Pointer); ok {
				tag = g.typeTag(pt.Elem())
				g.boxFn(pt.Elem())
			}
		}
		if args[1].Ptr != nil {
			g.havocPtr(st, args[1].Ptr)
		}
		g.vc.assume("", fmt.Sprintf("(=> (= %s 0) (not (p$errAs %s %d)))", args[0].T, args[0].T, tag)) // errors.As(nil, _) is false
		return Val{T: fmt.Sprintf("(p$errAs %s %d)", args[0].T, tag), S: "Bool", Ty: types.Typ[types.Bool]}, true
	case "errors.Is":
		g.declIs()
		return Val{T: fmt.Sprintf("(p$Is %s %s)", args[0].T, args[1].T), S: "Bool", Ty: types.Typ[types.Bool]}, true
	case "context.Context.Done":
		g.vc.decl("ctxdonech$", "(declare-fun ctxdonech$ (Int) Int)")
		return Val{T: fmt.Sprintf("(ctxdonech$ %s)", args[0].T), S: "Int", Ty: resTy()}, true
	case "context.Context.Err":
		g.vc.decl("ctxdone$", "(declare-fun ctxdone$ (Int) Bool)")
		res := g.freshVal(fr.id+"ctxerr", resTy())
		// once Done has fired, Err reports a non-nil error (context package contract)
		g.vc.assume("", fmt.Sprintf("(=> (ctxdone$ %s) (not (= %s 0)))", args[0].T, res.T))
		return res, true
	case "bytes.Equal":
		if args[0].S == "Str" && args[1].S == "Str" {
			return Val{T: sEq(args[0].T, args[1].T), S: "Bool", Ty: types.Typ[types.Bool]}, true
		}
	case "bytes.Clone", "slices.Clone", "strings.Clone":
		if args[0].S == "Str" {
			return Val{T: args[0].T, S: "Str", Ty: resTy()}, true
		}
	case "maps.Clone":
		if mt, ok := types.Unalias(c.Args[0].Type()).Underlying().(*types.Map); ok {
			ref := g.newRef(fr.id + "mclone")
			dn, ds, vn, vs := g.mapHeaps(mt)
			dh := g.heapTerm(st, dn, ds)
			vh := g.heapTerm(st, vn, vs)
			g.setHeap(st, dn, ds, fmt.Sprintf("(store %s %s (select %s %s))", dh, ref, dh, args[0].T), ref)
			g.setHeap(st, vn, vs, fmt.Sprintf("(store %s %s (select %s %s))", vh, ref, vh, args[0].T), ref)
			lh := g.heapTerm(st, g.mlenHeap(mt), "(Array Int Int)")
			g.setHeap(st, g.mlenHeap(mt), "(Array Int Int)", fmt.Sprintf("(store %s %s (select %s %s))", lh, ref, lh, args[0].T), ref)
			return Val{T: ref, S: "Int", Ty: resTy()}, true
		}
	case "sync.(*Mutex).Lock", "sync.(*RWMutex).Lock", "sync.(*RWMutex).RLock":
		h := g.heapTerm(st, "held$", "(Array Int Int)")
		mode := "1"
		if strings.HasSuffix(key, "RLock") {
			mode = "2"
		}
		if g.dry == 0 && g.lockObls {
			fr.callIdx["lock"]++
			g.addObligation(&Obligation{Name: fmt.Sprintf("%s.lock#%d.not-held", fr.topKey(), fr.callIdx["lock"]), Func: fr.topKey(), Kind: "lock",
				Guard: r, Goal: fmt.Sprintf("(= (select %s %s) 0)", h, args[0].T), Src: "mutex is not already held by this goroutine (self-deadlock)", Pos: g.posOf(site)})
		}
		g.setHeap(st, "held$", "(Array Int Int)", fmt.Sprintf("(store %s %s %s)", h, args[0].T, mode), args[0].T)
		return Val{S: "Tuple"}, true
	case "sync.(*Mutex).Unlock", "sync.(*RWMutex).Unlock", "sync.(*RWMutex).RUnlock":
		h := g.heapTerm(st, "held$", "(Array Int Int)")
		if g.dry == 0 && g.lockObls {
			fr.callIdx["unlock"]++
			g.addObligation(&Obligation{Name: fmt.Sprintf("%s.unlock#%d.held", fr.topKey(), fr.callIdx["unlock"]), Func: fr.topKey(), Kind: "lock",
				Guard: r, Goal: sNot(fmt.Sprintf("(= (select %s %s) 0)", h, args[0].T)), Src: "unlock of a mutex that is held", Pos: g.posOf(site)})
		}
		g.setHeap(st, "held$", "(Array Int Int)", fmt.Sprintf("(store %s %s 0)", h, args[0].T), args[0].T)
		return Val{S: "Tuple"}, true
	}
	return Val{}, false
}

// held(mu) in contracts
func (g *Gen) heldTerm(st *State, mu string) string {
	h := g.heapTerm(st, "held$", "(Array Int Int)")
	return fmt.Sprintf("(select %s %s)", h, mu)
}
