package main

import (
	"fmt"
	"go/constant"
	"go/token"
	"go/types"
	"os"
	"strings"
	"sync"

	"golang.org/x/tools/go/ssa"
)

var fileCache sync.Map

func readFileCached(name string) ([]byte, error) {
	if v, ok := fileCache.Load(name); ok {
		return v.([]byte), nil
	}
	b, err := os.ReadFile(name)
	if err != nil {
		return nil, err
	}
	fileCache.Store(name, b)
	return b, nil
}

// val returns the symbolic value of an SSA value in this frame.
func (fr *Frame) val(v ssa.Value) Val {
	g := fr.g
	if x, ok := fr.vals[v]; ok {
		if x.Ptr != nil && x.Ptr.Buf && fr.curSt != nil {
			if cur, ok := fr.curSt.cells[x.Ptr.Cell]; ok {
				x.T = cur.T
			}
		}
		return x
	}
	switch c := v.(type) {
	case *ssa.Const:
		return g.constVal(c)
	case *ssa.Global:
		p := &Ptr{Kind: pGlobal, Cell: "G$" + pkgName(c.Pkg.Pkg) + "." + c.Name(), Ty: c.Type().(*types.Pointer).Elem()}
		ga := "gaddr$" + sanitize(pkgName(c.Pkg.Pkg)+"."+c.Name())
		if !g.vc.declSet[ga] {
			g.vc.decl(ga, fmt.Sprintf("(declare-const %s Int)", ga))
			g.vc.decls = append(g.vc.decls, fmt.Sprintf("(assert (> %s 0))", ga))
		}
		return Val{T: ga, S: "Int", Ty: c.Type(), Ptr: p}
	case *ssa.Function:
		return Val{T: g.funcConst(c), S: "Int", Ty: c.Type(), Clo: &Closure{Fn: c}}
	case *ssa.Builtin:
		return Val{T: "builtin$" + c.Name(), S: "Int", Ty: c.Type()}
	case *ssa.FreeVar:
		for i, fv := range fr.fn.FreeVars {
			if fv == c && i < len(fr.free) {
				return fr.free[i]
			}
		}
	}
	// not yet defined (e.g. value from an unreachable block): fresh
	x := g.freshVal(fr.id+"u", v.Type())
	fr.vals[v] = x
	return x
}

func (g *Gen) funcConst(f *ssa.Function) string {
	n := "fn$" + sanitize(keyOfSSAFunc(f))
	g.vc.decl(n, fmt.Sprintf("(declare-const %s Int)", n))
	return n
}

func (g *Gen) constVal(c *ssa.Const) Val {
	t := c.Type()
	srt := g.sortOf(t)
	if c.Value == nil {
		// zero value / nil
		return Val{T: g.zero(t), S: srt, Ty: t}
	}
	switch c.Value.Kind() {
	case constant.Bool:
		if constant.BoolVal(c.Value) {
			return Val{T: "true", S: "Bool", Ty: t}
		}
		return Val{T: "false", S: "Bool", Ty: t}
	case constant.String:
		return Val{T: g.strLit(constant.StringVal(c.Value)), S: "Str", Ty: t}
	case constant.Int:
		if srt == "Real" {
			return Val{T: c.Value.ExactString() + ".0", S: srt, Ty: t}
		}
		if i, ok := constant.Int64Val(c.Value); ok {
			return Val{T: g.intLit(i, srt), S: srt, Ty: t}
		}
		if u, ok := constant.Uint64Val(c.Value); ok {
			return Val{T: g.uintLit(u, srt), S: srt, Ty: t}
		}
	case constant.Float:
		f, _ := constant.Float64Val(c.Value)
		if srt == "Real" {
			s := fmt.Sprintf("%f", f)
			if f < 0 {
				s = fmt.Sprintf("(- %f)", -f)
			}
			return Val{T: s, S: srt, Ty: t}
		}
	}
	return g.freshVal("const", t)
}

// ptrOf turns a pointer-typed value into a static pointer description.
func (g *Gen) ptrOf(v Val) *Ptr {
	if v.Ptr != nil {
		return v.Ptr
	}
	if v.Ty == nil {
		return nil
	}
	pt, ok := types.Unalias(v.Ty).Underlying().(*types.Pointer)
	if !ok {
		return nil
	}
	el := pt.Elem()
	if _, ok := types.Unalias(el).Underlying().(*types.Struct); ok {
		return &Ptr{Kind: pField, Base: v.T, Struct: g.structKey(el), Ty: el}
	}
	if a, ok := types.Unalias(el).Underlying().(*types.Array); ok && !isByte(a.Elem()) {
		_ = a
		return nil
	}
	// pointer to a scalar: a one-field pseudo struct keyed by the pointee sort
	return &Ptr{Kind: pField, Base: v.T, Struct: "ptr$" + sanitize(g.sortOf(el)), Path: []string{"v"}, Ty: el}
}

func (g *Gen) ptrTerm(p *Ptr) string {
	switch p.Kind {
	case pCell, pGlobal:
		n := "caddr$" + sanitize(p.Cell)
		if !g.vc.declSet[n] {
			g.vc.decl(n, fmt.Sprintf("(declare-const %s Int)", n))
			g.vc.decls = append(g.vc.decls, fmt.Sprintf("(assert (> %s 0))", n))
		}
		return n
	case pField:
		if len(p.Path) == 0 {
			return p.Base
		}
		if strings.HasPrefix(p.Struct, "ptr$") {
			return p.Base
		}
		f := "fa$" + sanitize(heapName(p.Struct, p.Path))
		g.vc.decl(f, fmt.Sprintf("(declare-fun %s (Int) Int)", f))
		t := fmt.Sprintf("(%s %s)", f, p.Base)
		// the address of a field of an object is never nil (taking it through a nil base panics first)
		if !strings.Contains(t, "!b") { // not under a quantifier binder
			g.vc.assume("", fmt.Sprintf("(not (= %s 0))", t))
		}
		return t
	case pElem:
		g.vc.decl("ea$", "(declare-fun ea$ (Int Int) Int)")
		return fmt.Sprintf("(ea$ %s %s)", p.Arr, p.Idx)
	}
	return "0"
}

// execInstr executes one instruction; returns false when control does not continue (return/panic).
func (g *Gen) execInstr(fr *Frame, st *State, in ssa.Instruction, r string) bool {
	switch x := in.(type) {
	case *ssa.DebugRef:
		if id, ok := x.Expr.(interface{ String() string }); ok {
			_ = id
		}
		if obj := x.Object(); obj != nil {
			if _, isVar := obj.(*types.Var); isVar {
				fr.collectObjs()
				if os.Getenv("GOVC_DEBUG_KEY") != "" && (obj.Name() == "vkey" || obj.Name() == "origin") {
					_, a := fr.allocOf[obj]
					_, f := fr.freeOf[obj]
					fmt.Fprintf(os.Stderr, "  debugref %s@%d isaddr=%v alloc=%v free=%v frame=%s X=%T\n", obj.Name(), g.prog.Fset.Position(obj.Pos()).Line, x.IsAddr, a, f, fr.key, x.X)
				}
				if a, ok := fr.allocOf[obj]; ok {
					// address-taken variable: always resolved through its cell
					if av, ok := fr.vals[a]; ok {
						st.src[obj] = av
						st.srcAddr[obj] = true
					}
				} else if fv, ok := fr.freeOf[obj]; ok {
					st.src[obj] = fr.val(fv)
					st.srcAddr[obj] = true
				} else if st.srcAddr[obj] && !x.IsAddr {
					// the variable already lives in a cell (captured by reference in an enclosing closure, e.g. assigned
					// from a deferred inner closure): the Store has updated the cell; keep resolving the name through it
				} else {
					st.src[obj] = fr.val(x.X)
					st.srcAddr[obj] = x.IsAddr
				}
			}
		}
	case *ssa.Alloc:
		fr.vals[x] = g.alloc(fr, st, x)
	case *ssa.FieldAddr:
		base := fr.val(x.X)
		bp := g.ptrOf(base)
		stt := x.X.Type().Underlying().(*types.Pointer).Elem().Underlying().(*types.Struct)
		f := stt.Field(x.Field)
		var np *Ptr
		if bp != nil && bp.Kind == pField && !strings.HasPrefix(bp.Struct, "ptr$") {
			np = &Ptr{Kind: pField, Base: bp.Base, Struct: bp.Struct, Path: append(append([]string{}, bp.Path...), f.Name()), Ty: f.Type()}
		} else {
			np = &Ptr{Kind: pField, Base: base.T, Struct: g.structKey(x.X.Type().Underlying().(*types.Pointer).Elem()), Path: []string{f.Name()}, Ty: f.Type()}
		}
		if fr.noPanic && g.dry == 0 && bp != nil && bp.Kind == pField && len(bp.Path) == 0 {
			g.panicObl(fr, in, r, "nil-deref", sNot(sEq(base.T, "0")))
		}
		fr.vals[x] = Val{T: g.ptrTerm(np), S: "Int", Ty: x.Type(), Ptr: np}
	case *ssa.Field:
		sv := fr.val(x.X)
		stt := x.X.Type().Underlying().(*types.Struct)
		f := stt.Field(x.Field)
		key := g.structKey(x.X.Type())
		g.structSort(x.X.Type(), stt)
		fr.vals[x] = Val{T: fmt.Sprintf("(%s %s)", g.fieldSel(key, f.Name(), x.Field), sv.T), S: g.sortOf(f.Type()), Ty: f.Type()}
		g.arrayLenFact(fr.vals[x])
	case *ssa.IndexAddr:
		fr.vals[x] = g.indexAddr(fr, st, x, r)
	case *ssa.Index:
		sv := fr.val(x.X)
		idx := g.toInt(fr.val(x.Index))
		if sv.S == "Str" {
			p := &Ptr{Kind: pElemStr, Src: &sv, Idx: idx, Ty: x.Type()}
			if fr.noPanic {
				g.panicObl(fr, in, r, "index", fmt.Sprintf("(and (<= 0 %s) (< %s (slen %s)))", idx, idx, sv.T))
			}
			fr.vals[x] = g.loadPtr(st, p)
		} else {
			fr.vals[x] = g.freshVal(fr.id+"idx", x.Type())
			g.vc.note("unmodelled", "Index on "+x.X.Type().String())
		}
	case *ssa.UnOp:
		fr.vals[x] = g.unop(fr, st, x, r)
	case *ssa.Store:
		addr := fr.val(x.Addr)
		v := fr.val(x.Val)
		if p := g.ptrOf(addr); p != nil {
			if fr.noPanic && p.Kind == pField && len(p.Path) == 1 && strings.HasPrefix(p.Struct, "ptr$") {
				g.panicObl(fr, in, r, "nil-deref", sNot(sEq(p.Base, "0")))
			}
			g.guardedAccess(fr, st, p, in, r, "write")
			g.storePtr(st, p, v)
		} else {
			g.vc.note("unmodelled", fmt.Sprintf("store through unresolved pointer %s in %s", x.Addr.Type(), fr.key))
		}
	case *ssa.BinOp:
		fr.vals[x] = g.binop(fr, x, r)
	case *ssa.Phi:
		// handled by runBlocks
	case *ssa.Call:
		fr.vals[x] = g.call(fr, st, x, x.Common(), r)
	case *ssa.Defer:
		if g.dry == 0 || true {
			fr.defers = append(fr.defers, deferEntry{guard: r, call: x, fr: fr})
		}
	case *ssa.Go:
		// the goroutine body runs at some later point: its effects are not sequenced here (escapeArgs havocs what it
		// may write), but the obligations inside it (caller-side clauses at the calls it makes, lock discipline) are
		// generated by running the body once on a copy of the spawn-time state in which every captured variable that
		// the spawning function may still assign afterwards is unknown
		g.checkGoBody(fr, st, x, r)
		g.vc.note("unmodelled", "go statement in "+fr.key+": body checked on the spawn-time state, effects havocked")
		g.escapeArgs(fr, st, x.Common())
	case *ssa.RunDefers:
		for i := len(fr.defers) - 1; i >= 0; i-- {
			d := fr.defers[i]
			g.runDeferred(fr, st, d, r)
		}
	case *ssa.Return:
		var vs []Val
		for _, rv := range x.Results {
			vs = append(vs, fr.val(rv))
		}
		fr.rets = append(fr.rets, retInfo{guard: r, vals: vs, st: st})
		if fr.top && fr.fc != nil && len(fr.fc.Returns) > 0 && g.dry == 0 {
			g.returnClauses(fr, st, x, vs, r)
		}
		return false
	case *ssa.Panic:
		if fr.noPanic {
			g.panicObl(fr, in, r, "explicit-panic", "false")
		}
		fr.panics = append(fr.panics, r)
		return false
	case *ssa.If, *ssa.Jump:
		// control flow handled by runBlocks
	case *ssa.Convert:
		fr.vals[x] = g.convert(fr, x)
	case *ssa.ChangeType:
		v := fr.val(x.X)
		v.Ty = x.Type()
		if g.sortOf(x.Type()) != v.S {
			v = g.freshVal(fr.id+"ct", x.Type())
		}
		fr.vals[x] = v
	case *ssa.MultiConvert:
		fr.vals[x] = g.freshVal(fr.id+"mc", x.Type())
	case *ssa.ChangeInterface:
		v := fr.val(x.X)
		v.Ty = x.Type()
		fr.vals[x] = v
	case *ssa.MakeInterface:
		fr.vals[x] = g.makeInterface(fr.val(x.X), x.X.Type(), x.Type())
	case *ssa.TypeAssert:
		fr.vals[x] = g.typeAssert(fr, x, r)
	case *ssa.Extract:
		t := fr.val(x.Tuple)
		if x.Index < len(t.Tup) {
			fr.vals[x] = t.Tup[x.Index]
		} else {
			fr.vals[x] = g.freshVal(fr.id+"ex", x.Type())
		}
	case *ssa.Slice:
		fr.vals[x] = g.sliceOp(fr, st, x, r)
	case *ssa.MakeSlice:
		ln := g.toInt(fr.val(x.Len))
		if g.sortOf(x.Type()) == "Str" {
			id := fmt.Sprintf("%s.buf%s", fr.id, x.Name())
			content := Val{T: fmt.Sprintf("(zeros %s)", ln), S: "Str", Ty: x.Type()}
			g.setCell(st, id, content)
			st.escaped[id] = true
			fr.vals[x] = Val{T: content.T, S: "Str", Ty: x.Type(), Ptr: &Ptr{Kind: pCell, Cell: id, Ty: x.Type(), Buf: true}}
		} else {
			arr := g.newRef(fr.id + "mk")
			cp := g.toInt(fr.val(x.Cap))
			fr.vals[x] = Val{T: fmt.Sprintf("(mk$Slice %s 0 %s %s)", arr, ln, cp), S: "Slice", Ty: x.Type()}
		}
	case *ssa.MakeMap:
		ref := g.newRef(fr.id + "map")
		mt := x.Type().Underlying().(*types.Map)
		dn, ds, _, _ := g.mapHeaps(mt)
		h := g.heapTerm(st, dn, ds)
		g.setHeap(st, dn, ds, fmt.Sprintf("(store %s %s %s)", h, ref, g.emptySet(g.sortOf(mt.Key()))), ref)
		g.vc.assume("", fmt.Sprintf("(= (maplen$ %s) 0)", g.mapLenKey(st, mt, ref)))
		fr.vals[x] = Val{T: ref, S: "Int", Ty: x.Type()}
	case *ssa.MakeChan:
		ref := g.newRef(fr.id + "ch")
		h := g.heapTerm(st, "closed$", "(Array Int Bool)")
		g.setHeap(st, "closed$", "(Array Int Bool)", fmt.Sprintf("(store %s %s false)", h, ref), ref)
		fr.vals[x] = Val{T: ref, S: "Int", Ty: x.Type()}
	case *ssa.MakeClosure:
		fn := x.Fn.(*ssa.Function)
		var bs []Val
		for _, b := range x.Bindings {
			bv := fr.val(b)
			bs = append(bs, bv)
			if bv.Ptr != nil && bv.Ptr.Kind == pCell {
				st.escaped[bv.Ptr.Cell] = true
			}
		}
		ref := g.newRef(fr.id + "clo")
		clo := &Closure{Fn: fn, Bindings: bs}
		fr.closures = append(fr.closures, clo)
		fr.vals[x] = Val{T: ref, S: "Int", Ty: x.Type(), Clo: clo}
	case *ssa.MapUpdate:
		g.mapUpdate(fr, st, x)
	case *ssa.Lookup:
		fr.vals[x] = g.lookup(fr, st, x, r)
	case *ssa.Range:
		fr.vals[x] = Val{T: fr.val(x.X).T, S: "Int", Ty: x.Type(), Tup: []Val{fr.val(x.X)}}
	case *ssa.Next:
		fr.vals[x] = g.next(fr, st, x)
	case *ssa.Select:
		fr.vals[x] = g.selectOp(fr, st, x, r)
	case *ssa.Send:
		g.vc.note("unmodelled", "channel send in "+fr.key)
	case *ssa.SliceToArrayPointer:
		fr.vals[x] = g.freshVal(fr.id+"s2a", x.Type())
	default:
		g.vc.note("unmodelled", fmt.Sprintf("instruction %T in %s", in, fr.key))
		if v, ok := in.(ssa.Value); ok {
			fr.vals[v] = g.freshVal(fr.id+"x", v.Type())
		}
	}
	return true
}

func (g *Gen) newRef(prefix string) string {
	n := g.vc.freshConst(prefix, "Int")
	g.vc.allocs = append(g.vc.allocs, n)
	if g.vc.allocSet == nil {
		g.vc.allocSet = map[string]bool{}
	}
	g.vc.allocSet[n] = true
	// fresh objects are non-nil and allocated after everything that existed before (allocation clock):
	// this makes them distinct from earlier allocations, from pre-existing objects (time <= 0) and from
	// loop-carried references (time < the loop's epoch)
	if g.vc.clock == "" {
		g.vc.clock = "0"
	}
	g.vc.lines = append(g.vc.lines, fmt.Sprintf("(assert (and (> %s 0) (> (allocid$ %s) %s) (fresh$ %s)))", n, n, g.vc.clock, n))
	g.vc.clock = fmt.Sprintf("(allocid$ %s)", n)
	return n
}

func (g *Gen) alloc(fr *Frame, st *State, x *ssa.Alloc) Val {
	el := x.Type().Underlying().(*types.Pointer).Elem()
	switch u := types.Unalias(el).Underlying().(type) {
	case *types.Struct:
		ref := g.newRef(fr.id + "new")
		p := &Ptr{Kind: pField, Base: ref, Struct: g.structKey(el), Ty: el}
		g.zeroObject(st, ref, el)
		_ = u
		return Val{T: ref, S: "Int", Ty: x.Type(), Ptr: p}
	case *types.Array:
		if !isByte(u.Elem()) {
			ref := g.newRef(fr.id + "arr")
			slots := make([]Val, u.Len())
			return Val{T: ref, S: "Int", Ty: x.Type(), Ptr: &Ptr{Kind: pElem, Arr: ref, Idx: "0", Ty: u.Elem(), Slots: &slots, SlotIx: -1}}
		}
	}
	id := fmt.Sprintf("%s.%s", fr.id, x.Name())
	if x.Comment != "" {
		id += "_" + sanitize(x.Comment)
	}
	p := &Ptr{Kind: pCell, Cell: id, Ty: el}
	g.setCell(st, id, Val{T: g.zero(el), S: g.sortOf(el), Ty: el})
	return Val{T: g.ptrTerm(p), S: "Int", Ty: x.Type(), Ptr: p}
}

func (g *Gen) indexAddr(fr *Frame, st *State, x *ssa.IndexAddr, r string) Val {
	base := fr.val(x.X)
	idxV := fr.val(x.Index)
	idx := g.toInt(idxV)
	elT := x.Type().Underlying().(*types.Pointer).Elem()
	switch bt := types.Unalias(x.X.Type()).Underlying().(type) {
	case *types.Slice:
		if base.S == "Str" {
			if fr.noPanic {
				g.panicObl(fr, x, r, "index", fmt.Sprintf("(and (<= 0 %s) (< %s (slen %s)))", idx, idx, base.T))
			}
			b := base
			return Val{T: "0", S: "Int", Ty: x.Type(), Ptr: &Ptr{Kind: pElemStr, Src: &b, Idx: idx, Ty: elT}}
		}
		if fr.noPanic {
			g.panicObl(fr, x, r, "index", fmt.Sprintf("(and (<= 0 %s) (< %s (slenS %s)))", idx, idx, base.T))
		}
		p := &Ptr{Kind: pElem, Arr: fmt.Sprintf("(sarr %s)", base.T), Idx: fmt.Sprintf("(idx$ (soff %s) %s)", base.T, idx), Ty: elT}
		if base.Elems != nil {
			if c, ok := x.Index.(*ssa.Const); ok {
				if i, ok := constant.Int64Val(c.Value); ok && int(i) < len(base.Elems) {
					e := base.Elems
					p.Slots = &e
					p.SlotIx = int(i)
				}
			}
		}
		return Val{T: g.ptrTerm(p), S: "Int", Ty: x.Type(), Ptr: p}
	case *types.Pointer: // pointer to array
		at := bt.Elem().Underlying().(*types.Array)
		if isByte(at.Elem()) {
			// element of a byte array held in a cell/field
			if bp := g.ptrOf(base); bp != nil {
				arr := g.loadPtr(st, bp)
				if fr.noPanic {
					g.panicObl(fr, x, r, "index", fmt.Sprintf("(and (<= 0 %s) (< %s %d))", idx, idx, at.Len()))
				}
				return Val{T: "0", S: "Int", Ty: x.Type(), Ptr: &Ptr{Kind: pElemStr, Src: &arr, Idx: idx, Ty: elT, Origin: bp}}
			}
		}
		if base.Ptr != nil && base.Ptr.Kind == pElem {
			p := &Ptr{Kind: pElem, Arr: base.Ptr.Arr, Idx: idx, Ty: elT, Slots: base.Ptr.Slots, SlotIx: -1}
			if c, ok := x.Index.(*ssa.Const); ok {
				if i, ok := constant.Int64Val(c.Value); ok {
					p.SlotIx = int(i)
				}
			}
			return Val{T: g.ptrTerm(p), S: "Int", Ty: x.Type(), Ptr: p}
		}
		p := &Ptr{Kind: pElem, Arr: base.T, Idx: idx, Ty: elT}
		return Val{T: g.ptrTerm(p), S: "Int", Ty: x.Type(), Ptr: p}
	}
	g.vc.note("unmodelled", "IndexAddr on "+x.X.Type().String())
	return g.freshVal(fr.id+"ia", x.Type())
}

// toInt converts an integer-sorted value to the mathematical Int used for indices and lengths.
func (g *Gen) toInt(v Val) string {
	if strings.HasPrefix(v.S, "(_ BitVec") {
		if isUnsigned(v.Ty) {
			return fmt.Sprintf("(bv2nat %s)", v.T)
		}
		return fmt.Sprintf("(sbv2int %s)", v.T)
	}
	return v.T
}

// fromInt converts a mathematical Int term to the integer sort of type t in the current mode.
func (g *Gen) fromInt(term string, t types.Type) Val {
	srt := g.sortOf(t)
	if strings.HasPrefix(srt, "(_ BitVec") {
		w := intWidth(t.Underlying().(*types.Basic))
		return Val{T: fmt.Sprintf("((_ int2bv %d) %s)", w, term), S: srt, Ty: t}
	}
	return Val{T: term, S: srt, Ty: t}
}

func (g *Gen) unop(fr *Frame, st *State, x *ssa.UnOp, r string) Val {
	v := fr.val(x.X)
	switch x.Op {
	case token.MUL:
		p := g.ptrOf(v)
		if p == nil {
			g.vc.note("unmodelled", fmt.Sprintf("load through unresolved pointer %s in %s", x.X.Type(), fr.key))
			return g.freshVal(fr.id+"ld", x.Type())
		}
		if fr.noPanic && p.Kind == pField && (len(p.Path) == 0 || strings.HasPrefix(p.Struct, "ptr$")) {
			g.panicObl(fr, x, r, "nil-deref", sNot(sEq(p.Base, "0")))
		}
		g.guardedAccess(fr, st, p, x, r, "read")
		lv := g.loadPtr(st, p)
		lv.Ty = x.Type()
		g.preexisting(lv)
		if lv.S == "Slice" || lv.S == "Str" || (lv.S == "Int" && !g.bv) {
			// slices read from memory are well formed; integers respect their type's range
			if g.dry == 0 {
				g.loadFacts(lv)
			}
		}
		return lv
	case token.NOT:
		return Val{T: sNot(v.T), S: "Bool", Ty: x.Type()}
	case token.SUB:
		if strings.HasPrefix(v.S, "(_ BitVec") {
			return Val{T: fmt.Sprintf("(bvneg %s)", v.T), S: v.S, Ty: x.Type()}
		}
		if v.S == "Real" {
			return Val{T: fmt.Sprintf("(- %s)", v.T), S: v.S, Ty: x.Type()}
		}
		return g.wrapInt(fmt.Sprintf("(- %s)", v.T), x.Type())
	case token.XOR:
		if strings.HasPrefix(v.S, "(_ BitVec") {
			return Val{T: fmt.Sprintf("(bvnot %s)", v.T), S: v.S, Ty: x.Type()}
		}
		return g.freshVal(fr.id+"not", x.Type())
	case token.ARROW:
		// receive: value unconstrained
		res := g.freshVal(fr.id+"recv", x.Type())
		return res
	}
	g.vc.note("unmodelled", "unop "+x.Op.String())
	return g.freshVal(fr.id+"un", x.Type())
}

// arrayLenFact: a value of type [N]byte has exactly N bytes.
func (g *Gen) arrayLenFact(v Val) {
	if v.S != "Str" || v.Ty == nil || g.dry > 0 || strings.Contains(v.T, "!b") || strings.Contains(v.T, "a$") {
		return // (terms under a quantifier binder or inside a spec-function body cannot be asserted about globally)
	}
	if a, ok := types.Unalias(v.Ty).Underlying().(*types.Array); ok {
		g.vc.assume("", fmt.Sprintf("(= (slen %s) %d)", v.T, a.Len()))
	}
}

func (g *Gen) loadFacts(v Val) {
	g.arrayLenFact(v)
	if v.S == "Slice" {
		g.vc.assume("", fmt.Sprintf("(and (<= 0 (soff %s)) (<= 0 (slenS %s)) (<= (slenS %s) (scap %s)))", v.T, v.T, v.T, v.T))
		return
	}
	if v.Ty == nil {
		return
	}
	if b, ok := types.Unalias(v.Ty).Underlying().(*types.Basic); ok && b.Info()&types.IsInteger != 0 {
		lo, hi := intRange(b)
		g.vc.assume("", fmt.Sprintf("(and (<= %s %s) (<= %s %s))", lo, v.T, v.T, hi))
	}
}

// wrapInt applies Go's wrap-around semantics for the integer type (Int mode: modelled as unbounded
// unless the type is narrower than 64 bits; 64-bit overflow is listed as an assumption).
func (g *Gen) wrapInt(term string, t types.Type) Val {
	srt := g.sortOf(t)
	return Val{T: term, S: srt, Ty: t}
}

func (g *Gen) panicObl(fr *Frame, in ssa.Instruction, r, kind, goal string) {
	if g.dry > 0 {
		return
	}
	pos := g.fset.Position(in.Pos())
	if !pos.IsValid() {
		// use the nearest preceding instruction with a position
		blk := in.Block()
		for _, o := range blk.Instrs {
			if o == in {
				break
			}
			if p := g.fset.Position(o.Pos()); p.IsValid() {
				pos = p
			}
		}
	}
	fr.callIdx["panic:"+kind]++
	g.addObligation(&Obligation{Name: fmt.Sprintf("%s.nopanic.%s#%d", fr.topKey(), kind, fr.callIdx["panic:"+kind]), Func: fr.topKey(), Kind: "nopanic",
		Guard: r, Goal: goal, Pos: fmt.Sprintf("%s:%d", pos.Filename, pos.Line), Src: kind})
}

// ---------------------------------------------------------------------------
// Binary operations

func (g *Gen) binop(fr *Frame, x *ssa.BinOp, r string) Val {
	a, b := fr.val(x.X), fr.val(x.Y)
	t := x.Type()
	xt := x.X.Type()
	switch x.Op {
	case token.EQL, token.NEQ:
		eq := g.equalVals(a, b, xt)
		if x.Op == token.NEQ {
			eq = sNot(eq)
		}
		return Val{T: eq, S: "Bool", Ty: t}
	}
	if a.S == "Bool" {
		switch x.Op {
		case token.LAND, token.AND:
			return Val{T: sAnd(a.T, b.T), S: "Bool", Ty: t}
		case token.LOR, token.OR:
			return Val{T: sOr(a.T, b.T), S: "Bool", Ty: t}
		}
	}
	if a.S == "Str" {
		switch x.Op {
		case token.ADD:
			return Val{T: fmt.Sprintf("(cat %s %s)", a.T, b.T), S: "Str", Ty: t}
		case token.LSS, token.LEQ, token.GTR, token.GEQ:
			g.vc.decl("strlt$", "(declare-fun strlt$ (Str Str) Bool)")
			switch x.Op {
			case token.LSS:
				return Val{T: fmt.Sprintf("(strlt$ %s %s)", a.T, b.T), S: "Bool", Ty: t}
			case token.GTR:
				return Val{T: fmt.Sprintf("(strlt$ %s %s)", b.T, a.T), S: "Bool", Ty: t}
			case token.LEQ:
				return Val{T: sNot(fmt.Sprintf("(strlt$ %s %s)", b.T, a.T)), S: "Bool", Ty: t}
			default:
				return Val{T: sNot(fmt.Sprintf("(strlt$ %s %s)", a.T, b.T)), S: "Bool", Ty: t}
			}
		}
	}
	if a.S == "Real" {
		ops := map[token.Token]string{token.ADD: "+", token.SUB: "-", token.MUL: "*", token.QUO: "/", token.LSS: "<", token.LEQ: "<=", token.GTR: ">", token.GEQ: ">="}
		if op, ok := ops[x.Op]; ok {
			srt := "Real"
			if x.Op == token.LSS || x.Op == token.LEQ || x.Op == token.GTR || x.Op == token.GEQ {
				srt = "Bool"
			}
			if x.Op == token.MUL || x.Op == token.QUO {
				return g.freshVal(fr.id+"fl", t)
			}
			return Val{T: fmt.Sprintf("(%s %s %s)", op, a.T, b.T), S: srt, Ty: t}
		}
	}
	if strings.HasPrefix(a.S, "(_ BitVec") {
		return g.binopBV(fr, x, a, b, r)
	}
	if a.S == "Int" {
		switch x.Op {
		case token.LSS:
			return Val{T: fmt.Sprintf("(< %s %s)", a.T, b.T), S: "Bool", Ty: t}
		case token.LEQ:
			return Val{T: fmt.Sprintf("(<= %s %s)", a.T, b.T), S: "Bool", Ty: t}
		case token.GTR:
			return Val{T: fmt.Sprintf("(> %s %s)", a.T, b.T), S: "Bool", Ty: t}
		case token.GEQ:
			return Val{T: fmt.Sprintf("(>= %s %s)", a.T, b.T), S: "Bool", Ty: t}
		case token.ADD:
			return g.arith(fr, x, fmt.Sprintf("(+ %s %s)", a.T, b.T), r)
		case token.SUB:
			return g.arith(fr, x, fmt.Sprintf("(- %s %s)", a.T, b.T), r)
		case token.MUL:
			return g.arith(fr, x, fmt.Sprintf("(* %s %s)", a.T, b.T), r)
		case token.QUO:
			if fr.noPanic {
				g.panicObl(fr, x, r, "div-zero", sNot(sEq(b.T, "0")))
			}
			g.vc.assume(r, sNot(sEq(b.T, "0"))) // division by zero panics: execution continues only otherwise
			return Val{T: fmt.Sprintf("(godiv %s %s)", a.T, b.T), S: "Int", Ty: t}
		case token.REM:
			if fr.noPanic {
				g.panicObl(fr, x, r, "div-zero", sNot(sEq(b.T, "0")))
			}
			g.vc.assume(r, sNot(sEq(b.T, "0")))
			return Val{T: fmt.Sprintf("(gomod %s %s)", a.T, b.T), S: "Int", Ty: t}
		case token.SHL:
			if c, ok := x.Y.(*ssa.Const); ok {
				if k, ok := constant.Int64Val(c.Value); ok && k >= 0 && k < 63 {
					return g.arith(fr, x, fmt.Sprintf("(* %s %d)", a.T, int64(1)<<uint(k)), r)
				}
			}
			return Val{T: fmt.Sprintf("(ite (>= %s 64) 0 (* %s (pow2 %s)))", g.toInt(b), a.T, g.toInt(b)), S: "Int", Ty: t}
		case token.SHR:
			if c, ok := x.Y.(*ssa.Const); ok {
				if k, ok := constant.Int64Val(c.Value); ok && k >= 0 && k < 63 {
					return Val{T: fmt.Sprintf("(div %s %d)", a.T, int64(1)<<uint(k)), S: "Int", Ty: t}
				}
			}
			return Val{T: fmt.Sprintf("(div %s (pow2 %s))", a.T, g.toInt(b)), S: "Int", Ty: t}
		case token.AND, token.OR, token.XOR, token.AND_NOT:
			f := map[token.Token]string{token.AND: "band$", token.OR: "bor$", token.XOR: "bxor$", token.AND_NOT: "bandnot$"}[x.Op]
			g.vc.decl(f, fmt.Sprintf("(declare-fun %s (Int Int) Int)", f))
			res := g.vc.define(fr.id+"bit", "Int", fmt.Sprintf("(%s %s %s)", f, a.T, b.T))
			if x.Op == token.OR {
				// true facts about bitwise or of non-overlapping operands: a has its low k bits clear and 0 <= b < 2^k
				for _, k := range []uint{8, 16, 24, 32, 40, 48, 56} {
					p := uint64(1) << k
					g.vc.assume("", fmt.Sprintf("(=> (and (>= %s 0) (= (mod %s %d) 0) (<= 0 %s) (< %s %d)) (= %s (+ %s %s)))", a.T, a.T, p, b.T, b.T, p, res, a.T, b.T))
				}
			}
			return Val{T: res, S: "Int", Ty: t}
		}
	}
	g.vc.note("unmodelled", fmt.Sprintf("binop %s on %s", x.Op, xt))
	return g.freshVal(fr.id+"bin", t)
}

// arith: result of an integer operation in Int mode. Narrow and unsigned types wrap; 64-bit signed
// arithmetic is treated as mathematical (assumption "no int64 overflow") unless nooverflow obligations are requested.
func (g *Gen) arith(fr *Frame, x *ssa.BinOp, term string, r string) Val {
	t := x.Type()
	b, _ := types.Unalias(t).Underlying().(*types.Basic)
	if b != nil {
		switch b.Kind() {
		case types.Uint8, types.Uint16, types.Uint32:
			return Val{T: fmt.Sprintf("(mod %s %d)", term, uint64(1)<<uint(intWidth(b))), S: "Int", Ty: t}
		case types.Uint, types.Uint64, types.Uintptr:
			return Val{T: fmt.Sprintf("(mod %s 18446744073709551616)", term), S: "Int", Ty: t}
		}
	}
	return Val{T: term, S: "Int", Ty: t}
}

func (g *Gen) binopBV(fr *Frame, x *ssa.BinOp, a, b Val, r string) Val {
	t := x.Type()
	uns := isUnsigned(x.X.Type())
	// shifts: operand widths may differ
	bt := b.T
	if a.S != b.S && (x.Op == token.SHL || x.Op == token.SHR) {
		bt = g.bvResize(b, a.S)
	}
	cmp := func(s, u string) Val {
		op := s
		if uns {
			op = u
		}
		return Val{T: fmt.Sprintf("(%s %s %s)", op, a.T, b.T), S: "Bool", Ty: t}
	}
	switch x.Op {
	case token.LSS:
		return cmp("bvslt", "bvult")
	case token.LEQ:
		return cmp("bvsle", "bvule")
	case token.GTR:
		return cmp("bvsgt", "bvugt")
	case token.GEQ:
		return cmp("bvsge", "bvuge")
	case token.ADD:
		return Val{T: fmt.Sprintf("(bvadd %s %s)", a.T, b.T), S: a.S, Ty: t}
	case token.SUB:
		return Val{T: fmt.Sprintf("(bvsub %s %s)", a.T, b.T), S: a.S, Ty: t}
	case token.MUL:
		return Val{T: fmt.Sprintf("(bvmul %s %s)", a.T, b.T), S: a.S, Ty: t}
	case token.QUO:
		if fr.noPanic {
			g.panicObl(fr, x, r, "div-zero", sNot(sEq(b.T, g.zeroOfSort(b.S))))
		}
		if uns {
			return Val{T: fmt.Sprintf("(bvudiv %s %s)", a.T, b.T), S: a.S, Ty: t}
		}
		return Val{T: fmt.Sprintf("(bvsdiv %s %s)", a.T, b.T), S: a.S, Ty: t}
	case token.REM:
		if fr.noPanic {
			g.panicObl(fr, x, r, "div-zero", sNot(sEq(b.T, g.zeroOfSort(b.S))))
		}
		if uns {
			return Val{T: fmt.Sprintf("(bvurem %s %s)", a.T, b.T), S: a.S, Ty: t}
		}
		return Val{T: fmt.Sprintf("(bvsrem %s %s)", a.T, b.T), S: a.S, Ty: t}
	case token.AND:
		return Val{T: fmt.Sprintf("(bvand %s %s)", a.T, b.T), S: a.S, Ty: t}
	case token.OR:
		return Val{T: fmt.Sprintf("(bvor %s %s)", a.T, b.T), S: a.S, Ty: t}
	case token.XOR:
		return Val{T: fmt.Sprintf("(bvxor %s %s)", a.T, b.T), S: a.S, Ty: t}
	case token.AND_NOT:
		return Val{T: fmt.Sprintf("(bvand %s (bvnot %s))", a.T, b.T), S: a.S, Ty: t}
	case token.SHL:
		// Go: shift counts >= width give 0; SMT bvshl agrees. Negative signed counts panic.
		if fr.noPanic && !isUnsigned(x.Y.Type()) {
			g.panicObl(fr, x, r, "neg-shift", fmt.Sprintf("(bvsge %s %s)", b.T, g.zeroOfSort(b.S)))
		}
		return Val{T: fmt.Sprintf("(bvshl %s %s)", a.T, bt), S: a.S, Ty: t}
	case token.SHR:
		if fr.noPanic && !isUnsigned(x.Y.Type()) {
			g.panicObl(fr, x, r, "neg-shift", fmt.Sprintf("(bvsge %s %s)", b.T, g.zeroOfSort(b.S)))
		}
		if uns {
			return Val{T: fmt.Sprintf("(bvlshr %s %s)", a.T, bt), S: a.S, Ty: t}
		}
		return Val{T: fmt.Sprintf("(bvashr %s %s)", a.T, bt), S: a.S, Ty: t}
	}
	return g.freshVal(fr.id+"bvop", t)
}

func bvWidth(srt string) int {
	var w int
	fmt.Sscanf(srt, "(_ BitVec %d)", &w)
	return w
}

// bvResize converts a bit-vector value to another width (zero/sign extension or truncation by Go type).
func (g *Gen) bvResize(v Val, to string) string {
	fw, tw := bvWidth(v.S), bvWidth(to)
	switch {
	case fw == tw:
		return v.T
	case fw < tw:
		if isUnsigned(v.Ty) {
			return fmt.Sprintf("((_ zero_extend %d) %s)", tw-fw, v.T)
		}
		return fmt.Sprintf("((_ sign_extend %d) %s)", tw-fw, v.T)
	}
	return fmt.Sprintf("((_ extract %d 0) %s)", tw-1, v.T)
}

func (g *Gen) equalVals(a, b Val, t types.Type) string {
	if a.S == "Slice" {
		// only comparison with nil is legal in Go
		if a.T == "nilslice$" {
			return fmt.Sprintf("(= (sarr %s) 0)", b.T)
		}
		if b.T == "nilslice$" {
			return fmt.Sprintf("(= (sarr %s) 0)", a.T)
		}
	}
	if a.S == "Str" && t != nil {
		if _, isSlice := types.Unalias(t).Underlying().(*types.Slice); isSlice {
			// []byte == nil: nil-ness of an empty byte slice is not tracked (all empty byte strings are one value);
			// the comparison is true for the literal zero value, false for non-empty slices and arbitrary otherwise
			if a.T == "empty$" && b.T == "empty$" {
				return "true"
			}
			if a.T == "empty$" || b.T == "empty$" {
				other := b
				if b.T == "empty$" {
					other = a
				}
				nd := g.vc.freshConst("nilcmp", "Bool")
				return fmt.Sprintf("(and (= (slen %s) 0) %s)", other.T, nd)
			}
		}
		if a.T == "empty$" {
			return fmt.Sprintf("(= (slen %s) 0)", b.T)
		}
		if b.T == "empty$" {
			return fmt.Sprintf("(= (slen %s) 0)", a.T)
		}
	}
	if a.S != b.S {
		return g.vc.freshConst("cmp", "Bool")
	}
	return sEq(a.T, b.T)
}

// ---------------------------------------------------------------------------
// Conversions, interfaces

func (g *Gen) convert(fr *Frame, x *ssa.Convert) Val {
	v := fr.val(x.X)
	from, to := x.X.Type(), x.Type()
	fs, ts := g.sortOf(from), g.sortOf(to)
	if fs == "Str" && ts == "Str" {
		_, fromString := types.Unalias(from).Underlying().(*types.Basic)
		_, toSlice := types.Unalias(to).Underlying().(*types.Slice)
		_, _ = fromString, toSlice
		return Val{T: v.T, S: "Str", Ty: to}
	}
	fb, _ := types.Unalias(from).Underlying().(*types.Basic)
	tb, _ := types.Unalias(to).Underlying().(*types.Basic)
	if fb != nil && tb != nil && fb.Info()&types.IsInteger != 0 && tb.Info()&types.IsInteger != 0 {
		if g.bv {
			return Val{T: g.bvResize(v, ts), S: ts, Ty: to}
		}
		// Int mode: wrap into the target range when narrowing / changing signedness
		lo, hi := intRange(tb)
		flo, fhi := intRange(fb)
		if (flo == lo || (flo == "0" && lo != "0")) && fitsWithin(fb, tb) {
			_ = fhi
			return Val{T: v.T, S: "Int", Ty: to}
		}
		w := intWidth(tb)
		mod := "18446744073709551616"
		if w < 64 {
			mod = fmt.Sprint(uint64(1) << uint(w))
		}
		if tb.Info()&types.IsUnsigned != 0 {
			return Val{T: fmt.Sprintf("(mod %s %s)", v.T, mod), S: "Int", Ty: to}
		}
		// signed target: ((v + 2^(w-1)) mod 2^w) - 2^(w-1)
		half := "9223372036854775808"
		if w < 64 {
			half = fmt.Sprint(uint64(1) << uint(w-1))
		}
		_ = hi
		return Val{T: fmt.Sprintf("(- (mod (+ %s %s) %s) %s)", v.T, half, mod, half), S: "Int", Ty: to}
	}
	if fb != nil && tb != nil && fb.Info()&types.IsInteger != 0 && tb.Info()&types.IsFloat != 0 && !g.bv {
		return Val{T: fmt.Sprintf("(to_real %s)", v.T), S: "Real", Ty: to}
	}
	if fs == ts && fs != "Tuple" {
		return Val{T: v.T, S: ts, Ty: to}
	}
	return g.freshVal(fr.id+"cv", to)
}

// fitsWithin reports whether every value of integer type a is a value of integer type b.
func fitsWithin(a, b *types.Basic) bool {
	aw, bw := intWidth(a), intWidth(b)
	au, bu := a.Info()&types.IsUnsigned != 0, b.Info()&types.IsUnsigned != 0
	switch {
	case au == bu:
		return aw <= bw
	case au && !bu:
		return aw < bw
	}
	return false
}

func (g *Gen) boxFn(t types.Type) (string, string, int) {
	srt := g.sortOf(t)
	tag := g.typeTag(t)
	name := fmt.Sprintf("box$%d", tag)
	g.vc.decl(name, fmt.Sprintf("(declare-fun %s (%s) Int) ; %s", name, srt, types.TypeString(t, nil)))
	un := fmt.Sprintf("unbox$%d", tag)
	g.vc.decl(un, fmt.Sprintf("(declare-fun %s (Int) %s)", un, srt))
	return name, un, tag
}

func (g *Gen) makeInterface(v Val, from, to types.Type) Val {
	if v.S == "Tuple" {
		return g.freshVal("mi", to)
	}
	box, un, tag := g.boxFn(from)
	t := g.vc.freshConst("ifc", "Int")
	g.vc.lines = append(g.vc.lines, fmt.Sprintf("(assert (and (= %s (%s %s)) (= (%s %s) %s) (= (dyntype$ %s) %d) (not (= %s 0))))", t, box, v.T, un, t, v.T, t, tag, t))
	out := Val{T: t, S: "Int", Ty: to, Clo: v.Clo}
	if v.Ptr != nil {
		out.Ptr = v.Ptr
	}
	g.unwrapFacts(t, v, from)
	return out
}

// unwrapFacts: for an in-module struct type with `func (e T) Unwrap() error { return e.<field> }`,
// errors.Is on the boxed value looks through that field.
func (g *Gen) unwrapFacts(boxed string, v Val, from types.Type) {
	named, ok := types.Unalias(from).(*types.Named)
	if !ok || !g.isRepoPkg(named.Obj().Pkg()) {
		return
	}
	st, ok := named.Underlying().(*types.Struct)
	if !ok {
		return
	}
	var m *types.Func
	for i := 0; i < named.NumMethods(); i++ {
		if named.Method(i).Name() == "Unwrap" {
			m = named.Method(i)
		}
	}
	if m == nil {
		return
	}
	fn := g.prog.FuncValue(m)
	if fn == nil || len(fn.Blocks) != 1 {
		return
	}
	// find `return <field of receiver>`
	var fieldIdx = -1
	for _, in := range fn.Blocks[0].Instrs {
		if f, ok := in.(*ssa.Field); ok {
			fieldIdx = f.Field
		}
		if f, ok := in.(*ssa.FieldAddr); ok {
			fieldIdx = f.Field
		}
	}
	if fieldIdx < 0 || fieldIdx >= st.NumFields() || g.sortOf(st.Field(fieldIdx).Type()) != "Int" {
		return
	}
	g.declIs()
	key := g.structKey(from)
	inner := fmt.Sprintf("(%s %s)", g.fieldSel(key, st.Field(fieldIdx).Name(), fieldIdx), v.T)
	g.vc.assume("", fmt.Sprintf("(forall ((t Int)) (! (= (p$Is %s t) (or (= %s t) (p$Is %s t))) :pattern ((p$Is %s t))))", boxed, boxed, inner, boxed))
}

func (g *Gen) typeAssert(fr *Frame, x *ssa.TypeAssert, r string) Val {
	v := fr.val(x.X)
	at := x.AssertedType
	var okT string
	var res Val
	if _, isIface := types.Unalias(at).Underlying().(*types.Interface); isIface {
		okB := g.vc.freshConst(fr.id+"taok", "Bool")
		g.vc.lines = append(g.vc.lines, fmt.Sprintf("(assert (=> %s (not (= %s 0))))", okB, v.T))
		okT = okB
		res = Val{T: v.T, S: "Int", Ty: at, Ptr: v.Ptr, Clo: v.Clo}
	} else {
		_, un, tag := g.boxFn(at)
		okT = fmt.Sprintf("(= (dyntype$ %s) %d)", v.T, tag)
		res = Val{T: fmt.Sprintf("(%s %s)", un, v.T), S: g.sortOf(at), Ty: at}
		if v.Ptr != nil {
			res.Ptr = v.Ptr
		}
	}
	if x.CommaOk {
		return Val{S: "Tuple", Ty: x.Type(), Tup: []Val{res, {T: okT, S: "Bool", Ty: types.Typ[types.Bool]}}}
	}
	if fr.noPanic {
		g.panicObl(fr, x, r, "type-assert", okT)
	}
	return res
}

// ---------------------------------------------------------------------------
// Slices

func (g *Gen) sliceOp(fr *Frame, st *State, x *ssa.Slice, r string) Val {
	base := fr.val(x.X)
	var lo, hi string
	if x.Low != nil {
		lo = g.toInt(fr.val(x.Low))
	}
	if x.High != nil {
		hi = g.toInt(fr.val(x.High))
	}
	// pointer to array: slice the array
	if pt, ok := types.Unalias(x.X.Type()).Underlying().(*types.Pointer); ok {
		at := pt.Elem().Underlying().(*types.Array)
		if isByte(at.Elem()) {
			p := g.ptrOf(base)
			var arr Val
			if p != nil {
				arr = g.loadPtr(st, p)
			} else {
				arr = g.freshVal(fr.id+"arr", pt.Elem())
			}
			out := g.subStr(fr, x, arr, lo, hi, fmt.Sprint(at.Len()), r)
			if lo == "" && hi == "" && p != nil {
				out.Ptr = p
			}
			return out
		}
		// non-byte array (varargs): make a slice over the array object
		l := fmt.Sprint(at.Len())
		if lo == "" {
			lo = "0"
		}
		if hi == "" {
			hi = l
		}
		out := Val{T: fmt.Sprintf("(mk$Slice %s %s (- %s %s) (- %s %s))", base.T, lo, hi, lo, l, lo), S: "Slice", Ty: x.Type()}
		if base.Ptr != nil && base.Ptr.Slots != nil && lo == "0" {
			out.Elems = *base.Ptr.Slots
		}
		return out
	}
	if base.S == "Str" {
		return g.subStr(fr, x, base, lo, hi, fmt.Sprintf("(slen %s)", base.T), r)
	}
	if base.S == "Slice" {
		if lo == "" {
			lo = "0"
		}
		if hi == "" {
			hi = fmt.Sprintf("(slenS %s)", base.T)
		}
		if fr.noPanic {
			g.panicObl(fr, x, r, "slice-bounds", fmt.Sprintf("(and (<= 0 %s) (<= %s %s) (<= %s (scap %s)))", lo, lo, hi, hi, base.T))
		}
		return Val{T: fmt.Sprintf("(mk$Slice (sarr %s) (+ (soff %s) %s) (- %s %s) (- (scap %s) %s))", base.T, base.T, lo, hi, lo, base.T, lo), S: "Slice", Ty: x.Type()}
	}
	g.vc.note("unmodelled", "slice of "+x.X.Type().String())
	return g.freshVal(fr.id+"sl", x.Type())
}

func (g *Gen) subStr(fr *Frame, x *ssa.Slice, base Val, lo, hi, ln string, r string) Val {
	if lo == "" && hi == "" {
		return Val{T: base.T, S: "Str", Ty: x.Type()}
	}
	if lo == "" {
		lo = "0"
	}
	if hi == "" {
		hi = ln
	}
	if fr.noPanic {
		// (for byte slices the real bound is cap; using len is stricter and thus sound for no-panic)
		g.panicObl(fr, x, r, "slice-bounds", fmt.Sprintf("(and (<= 0 %s) (<= %s %s) (<= %s %s))", lo, lo, hi, hi, ln))
	}
	return Val{T: fmt.Sprintf("(sub %s %s %s)", base.T, lo, hi), S: "Str", Ty: x.Type()}
}

// ---------------------------------------------------------------------------
// Maps

func (g *Gen) mapHeaps(mt *types.Map) (dn, ds, vn, vs string) {
	ks, es := g.sortOf(mt.Key()), g.sortOf(mt.Elem())
	if es == "Tuple" {
		es = "Int"
	}
	dn = "MD$" + sanitize(ks)
	ds = fmt.Sprintf("(Array Int (Array %s Bool))", ks)
	vn = "MV$" + sanitize(ks) + "$" + sanitize(es)
	vs = fmt.Sprintf("(Array Int (Array %s %s))", ks, es)
	return
}

func (g *Gen) emptySet(ks string) string {
	return fmt.Sprintf("((as const (Array %s Bool)) false)", ks)
}

// mapLenKey: maplen$ is a function of a per-map "version" token; we key it on a fresh Int that changes on update.
func (g *Gen) mlenHeap(mt *types.Map) string {
	return "MLEN$" + sanitize(g.sortOf(mt.Key())) + "$" + sanitize(g.sortOf(mt.Elem()))
}

func (g *Gen) mapLenKey(st *State, mt *types.Map, ref string) string {
	h := g.heapTerm(st, g.mlenHeap(mt), "(Array Int Int)")
	return fmt.Sprintf("(select %s %s)", h, ref)
}

func (g *Gen) mapUpdate(fr *Frame, st *State, x *ssa.MapUpdate) {
	m := fr.val(x.Map)
	mt, ok := types.Unalias(x.Map.Type()).Underlying().(*types.Map)
	if !ok {
		return
	}
	k, v := fr.val(x.Key), fr.val(x.Value)
	g.mapUpdateClauses(fr, st, x, m, k, v)
	dn, ds, vn, vs := g.mapHeaps(mt)
	dh := g.heapTerm(st, dn, ds)
	vh := g.heapTerm(st, vn, vs)
	was := fmt.Sprintf("(select (select %s %s) %s)", dh, m.T, k.T)
	oldLen := fmt.Sprintf("(maplen$ %s)", g.mapLenKey(st, mt, m.T))
	g.setHeap(st, dn, ds, fmt.Sprintf("(store %s %s (store (select %s %s) %s true))", dh, m.T, dh, m.T, k.T), m.T)
	if v.S != "Tuple" {
		g.setHeap(st, vn, vs, fmt.Sprintf("(store %s %s (store (select %s %s) %s %s))", vh, m.T, vh, m.T, k.T, v.T), m.T)
	}
	g.bumpMapLen(st, mt, m.T, fmt.Sprintf("(ite %s %s (+ %s 1))", was, oldLen, oldLen))
}

func (g *Gen) bumpMapLen(st *State, mt *types.Map, ref, newLen string) {
	tok := g.vc.freshConst("mlen", "Int")
	lh := g.heapTerm(st, g.mlenHeap(mt), "(Array Int Int)")
	nl := g.vc.define("mlenv", "Int", newLen)
	g.setHeap(st, g.mlenHeap(mt), "(Array Int Int)", fmt.Sprintf("(store %s %s %s)", lh, ref, tok), ref)
	g.vc.assume("", fmt.Sprintf("(= (maplen$ %s) %s)", tok, nl))
}

func (g *Gen) lookup(fr *Frame, st *State, x *ssa.Lookup, r string) Val {
	m := fr.val(x.X)
	k := fr.val(x.Index)
	mt, ok := types.Unalias(x.X.Type()).Underlying().(*types.Map)
	if !ok {
		// string index
		if m.S == "Str" {
			idx := g.toInt(k)
			if fr.noPanic {
				g.panicObl(fr, x, r, "index", fmt.Sprintf("(and (<= 0 %s) (< %s (slen %s)))", idx, idx, m.T))
			}
			return g.loadPtr(st, &Ptr{Kind: pElemStr, Src: &m, Idx: idx, Ty: x.Type()})
		}
		return g.freshVal(fr.id+"lk", x.Type())
	}
	dn, ds, vn, vs := g.mapHeaps(mt)
	dh := g.heapTerm(st, dn, ds)
	vh := g.heapTerm(st, vn, vs)
	present := fmt.Sprintf("(select (select %s %s) %s)", dh, m.T, k.T)
	et := mt.Elem()
	es := g.sortOf(et)
	var val Val
	if es == "Tuple" {
		val = g.freshVal(fr.id+"lk", et)
	} else {
		val = Val{T: g.vc.define(fr.id+"lkv", es, sIte(present, fmt.Sprintf("(select (select %s %s) %s)", vh, m.T, k.T), g.zero(et))), S: es, Ty: et}
	}
	if x.CommaOk {
		return Val{S: "Tuple", Ty: x.Type(), Tup: []Val{val, {T: present, S: "Bool", Ty: types.Typ[types.Bool]}}}
	}
	return val
}

// next models one step of a map/string iteration: an arbitrary present key (map), ok arbitrary but
// false when the map is empty. On the first iteration of a non-empty map ok is true (see enterLoop note).
func (g *Gen) next(fr *Frame, st *State, x *ssa.Next) Val {
	it := fr.val(x.Iter)
	tup := x.Type().(*types.Tuple)
	okB := g.vc.freshConst(fr.id+"nextok", "Bool")
	kv := g.freshVal(fr.id+"nextk", tup.At(1).Type())
	vv := g.freshVal(fr.id+"nextv", tup.At(2).Type())
	if !x.IsString && len(it.Tup) == 1 {
		m := it.Tup[0]
		if mt, ok := types.Unalias(m.Ty).Underlying().(*types.Map); ok {
			// go/ssa gives unused components of the tuple an invalid type: take key and element types from the map
			kv = g.freshVal(fr.id+"nextk", mt.Key())
			vv = g.freshVal(fr.id+"nextv", mt.Elem())
			dn, ds, vn, vs := g.mapHeaps(mt)
			dh := g.heapTerm(st, dn, ds)
			vh := g.heapTerm(st, vn, vs)
			g.vc.assume("", fmt.Sprintf("(=> %s (select (select %s %s) %s))", okB, dh, m.T, kv.T))
			if vv.S != "Tuple" && g.sortOf(mt.Elem()) == vv.S {
				g.vc.assume("", fmt.Sprintf("(=> %s (= %s (select (select %s %s) %s)))", okB, vv.T, vh, m.T, kv.T))
			}
			ln := fmt.Sprintf("(maplen$ %s)", g.mapLenKey(st, mt, m.T))
			g.vc.assume("", fmt.Sprintf("(=> (= %s 0) (not %s))", ln, okB))
			// a Next that is not inside any CFG loop runs exactly once: it yields an element iff the map is non-empty
			inLoop := false
			for _, li := range fr.loops {
				if li.body[x.Block()] {
					inLoop = true
				}
			}
			if !inLoop {
				g.vc.assume("", fmt.Sprintf("(= %s (> %s 0))", okB, ln))
			}
		}
	}
	return Val{S: "Tuple", Ty: x.Type(), Tup: []Val{{T: okB, S: "Bool", Ty: types.Typ[types.Bool]}, kv, vv}}
}

// ---------------------------------------------------------------------------
// Select

func (g *Gen) selectOp(fr *Frame, st *State, x *ssa.Select, r string) Val {
	// index: arbitrary enabled case. A receive on a channel created in this module and only ever
	// closed (never sent on) is enabled iff it is closed; other channels are enabled arbitrarily.
	idx := g.vc.freshConst(fr.id+"sel", "Int")
	n := len(x.States)
	lo := "0"
	if !x.Blocking {
		lo = "(- 1)"
	}
	g.vc.assume(r, fmt.Sprintf("(and (<= %s %s) (< %s %d))", lo, idx, idx, n))
	ch := g.heapTerm(st, "closed$", "(Array Int Bool)")
	var anyKnownClosed []string
	for i, s := range x.States {
		c := fr.val(s.Chan)
		if strings.HasPrefix(c.T, "(ctxdonech$ ") {
			g.vc.decl("ctxdone$", "(declare-fun ctxdone$ (Int) Bool)")
			ctx := strings.TrimSuffix(strings.TrimPrefix(c.T, "(ctxdonech$ "), ")")
			g.vc.assume(r, fmt.Sprintf("(=> (= %s %d) (ctxdone$ %s))", idx, i, ctx))
		}
		if s.Dir == types.RecvOnly && g.isInternalChan(s.Chan) {
			g.vc.assume(r, fmt.Sprintf("(=> (= %s %d) (select %s %s))", idx, i, ch, c.T))
			anyKnownClosed = append(anyKnownClosed, fmt.Sprintf("(select %s %s)", ch, c.T))
		}
	}
	if !x.Blocking && len(anyKnownClosed) > 0 && len(anyKnownClosed) == n {
		// default is taken only when no case is ready
		g.vc.assume(r, fmt.Sprintf("(=> (= %s (- 1)) (not %s))", idx, sOr(anyKnownClosed...)))
	}
	tup := x.Type().(*types.Tuple)
	vals := []Val{{T: idx, S: "Int", Ty: types.Typ[types.Int]}, g.freshVal(fr.id+"selok", types.Typ[types.Bool])}
	for i := 2; i < tup.Len(); i++ {
		vals = append(vals, g.freshVal(fr.id+"selv", tup.At(i).Type()))
	}
	return Val{S: "Tuple", Ty: x.Type(), Tup: vals}
}

// isInternalChan: the channel value is read from a field/variable of a repo struct whose element type is struct{}.
func (g *Gen) isInternalChan(v ssa.Value) bool {
	ct, ok := types.Unalias(v.Type()).Underlying().(*types.Chan)
	if !ok {
		return false
	}
	st, ok := ct.Elem().Underlying().(*types.Struct)
	if !ok || st.NumFields() != 0 {
		return false
	}
	// ctx.Done() results come from a call; internal channels are loaded from memory
	switch x := v.(type) {
	case *ssa.UnOp:
		return x.Op == token.MUL
	case *ssa.Phi:
		return true
	}
	return false
}

// returnClauses emits the `returns` obligations of the function under contract at one return site.
func (g *Gen) returnClauses(fr *Frame, st *State, x *ssa.Return, vs []Val, r string) {
	fr.callIdx["return"]++
	k := fr.callIdx["return"]
	env := g.envFor(fr, st)
	env.pos = x.Pos()
	results := fr.fn.Signature.Results()
	for i := 0; i < results.Len() && i < len(vs); i++ {
		env.vars[fmt.Sprintf("ret%d", i)] = vs[i]
	}
	if len(vs) == 1 {
		env.vars["ret"] = vs[0]
	}
	if os.Getenv("GOVC_DEBUG_KEY") != "" {
		var bs []string
		for k := range st.cells {
			if strings.HasPrefix(k, "bind$") {
				bs = append(bs, k)
			}
		}
		var ss []string
		for o := range st.src {
			ss = append(ss, fmt.Sprintf("%s@%v(addr=%v)", o.Name(), g.prog.Fset.Position(o.Pos()).Line, st.srcAddr[o]))
		}
		fmt.Fprintf(os.Stderr, "  return#%d at %v binds=%v src=%v\n", k, g.posOf(x), bs, ss)
	}
	for _, cl := range fr.fc.Returns {
		v, err := g.evalBool(cl.Expr, env)
		if err != nil && cl.InScope && (strings.Contains(err.Error(), "unknown identifier") || strings.Contains(err.Error(), "unknown location")) {
			continue
		}
		if err != nil {
			// variables that are out of scope at this return: sub-formulas mentioning them are replaced by
			// false in positive and true in negative position, which only strengthens the obligation
			if lv, ok := g.evalLenient(cl.Expr, env, true); ok {
				g.addObligation(&Obligation{Name: fmt.Sprintf("%s.return#%d.%s", fr.key, k, cl.Name), Func: fr.key, Kind: "returns", Props: cl.Props,
					Guard: r, Goal: lv, Src: cl.Src + "   [out-of-scope parts strengthened: " + err.Error() + "]", Pos: g.posOf(x)})
				continue
			}
		}
		if err != nil {
			// a clause may mention variables that are not in scope at this return: it then must be vacuous there,
			// i.e. its antecedent must be false; we require the clause to be of the form A ==> B and check !A.
			if cl.Expr.Op == "bin" && cl.Expr.Name == "==>" {
				if a, err2 := g.evalBool(cl.Expr.Args[0], env); err2 == nil {
					g.addObligation(&Obligation{Name: fmt.Sprintf("%s.return#%d.%s.out-of-scope", fr.key, k, cl.Name), Func: fr.key, Kind: "returns", Props: cl.Props,
						Guard: r, Goal: sNot(a), Src: cl.Src + "   [consequent not evaluable here: " + err.Error() + "]", Pos: g.posOf(x)})
					continue
				}
			}
			g.contractError(cl, fmt.Errorf("at return #%d: %v", k, err))
			continue
		}
		g.addObligation(&Obligation{Name: fmt.Sprintf("%s.return#%d.%s", fr.key, k, cl.Name), Func: fr.key, Kind: "returns", Props: cl.Props,
			Guard: r, Goal: v, Src: cl.Src, Pos: g.posOf(x), Clause: cl})
	}
}

// guardedAccess emits the lock-discipline obligation for an access to a guarded field.
func (g *Gen) guardedAccess(fr *Frame, st *State, p *Ptr, in ssa.Instruction, r, what string) {
	if g.dry > 0 || p.Kind != pField || len(p.Path) == 0 || len(g.cs.Guards) == 0 {
		return
	}
	for _, gb := range g.cs.Guards {
		if sanitize(gb.Struct) != p.Struct {
			continue
		}
		hit := false
		for _, f := range gb.Fields {
			if f == p.Path[0] {
				hit = true
			}
		}
		if !hit {
			continue
		}
		mu := &Ptr{Kind: pField, Base: p.Base, Struct: p.Struct, Path: []string{gb.Mutex}}
		held := sNot(sEq(g.heldTerm(st, g.ptrTerm(mu)), "0"))
		tf := fr
		for tf.parent != nil {
			tf = tf.parent
		}
		tf.callIdx["guard:"+p.Path[0]]++
		g.addObligation(&Obligation{Name: fmt.Sprintf("%s.guarded[%s.%s].%s#%d", fr.topKey(), gb.Struct, p.Path[0], what, tf.callIdx["guard:"+p.Path[0]]), Func: fr.topKey(), Kind: "lock",
			Props: gb.Props, Guard: r, Goal: sOr(fmt.Sprintf("(fresh$ %s)", p.Base), held), Src: fmt.Sprintf("%s of %s.%s requires %s to be held (or the object not yet shared)", what, gb.Struct, p.Path[0], gb.Mutex), Pos: g.posOf(in)})
	}
}

// preexisting: a reference read from a heap that has not been written since function entry denotes an object
// that existed before the call, hence is different from everything allocated during it.
func (g *Gen) preexisting(v Val) {
	if g.dry > 0 || v.Ty == nil {
		return
	}
	if v.S == "Slice" && strings.HasPrefix(v.T, "(select H0$") && strings.Count(v.T, "(") == 1 {
		g.vc.assume("", fmt.Sprintf("(<= (allocid$ (sarr %s)) 0)", v.T))
		return
	}
	if v.S != "Int" {
		return
	}
	switch types.Unalias(v.Ty).Underlying().(type) {
	case *types.Pointer, *types.Map, *types.Chan:
	default:
		return
	}
	if strings.HasPrefix(v.T, "(select H0$") && (strings.Count(v.T, "(") == 1 || entryChain(v.T)) {
		g.vc.assume("", fmt.Sprintf("(<= (allocid$ %s) 0)", v.T))
	}
}

// entryChain: the term is a chain of reads of entry heaps starting at a parameter, (select H0$a (select H0$b ... p_x)):
// every object on such a chain existed when the function was entered.
func entryChain(t string) bool {
	for strings.HasPrefix(t, "(select H0$") && strings.HasSuffix(t, ")") {
		rest := t[len("(select "):]
		i := strings.Index(rest, " ")
		if i < 0 {
			return false
		}
		t = rest[i+1 : len(rest)-1]
	}
	return strings.HasPrefix(t, "p_") && !strings.ContainsAny(t, " ()")
}

// evalLenient evaluates a boolean contract expression, replacing sub-formulas that cannot be evaluated at this
// program point (identifiers not in scope) by false (positive position) or true (negative position).
func (g *Gen) evalLenient(x *CExpr, env *Env, pos bool) (string, bool) {
	if x.Op == "bin" {
		switch x.Name {
		case "&&", "||":
			a, ok1 := g.evalLenient(x.Args[0], env, pos)
			b, ok2 := g.evalLenient(x.Args[1], env, pos)
			if !ok1 || !ok2 {
				return "", false
			}
			if x.Name == "&&" {
				return sAnd(a, b), true
			}
			return sOr(a, b), true
		case "==>":
			a, ok1 := g.evalLenient(x.Args[0], env, !pos)
			b, ok2 := g.evalLenient(x.Args[1], env, pos)
			if !ok1 || !ok2 {
				return "", false
			}
			return sImp(a, b), true
		}
	}
	if x.Op == "un" && x.Name == "!" {
		a, ok := g.evalLenient(x.Args[0], env, !pos)
		if !ok {
			return "", false
		}
		return sNot(a), true
	}
	v, err := g.eval(x, env)
	if err != nil {
		if strings.Contains(err.Error(), "unknown identifier") || strings.Contains(err.Error(), "unknown location") {
			if pos {
				return "false", true
			}
			return "true", true
		}
		return "", false
	}
	if v.S != "Bool" {
		return "", false
	}
	return v.T, true
}

// mapUpdateClauses: `mapupdate <name> requires` obligations of the function under contract at this m[k] = v.
func (g *Gen) mapUpdateClauses(fr *Frame, st *State, x *ssa.MapUpdate, m, k, v Val) {
	top := fr
	for top.parent != nil {
		top = top.parent
	}
	if top.fc == nil || g.dry > 0 || len(top.fc.MapReqs) == 0 {
		return
	}
	// name of the map: struct field it was loaded from, or the local variable holding it
	name := ""
	if u, ok := x.Map.(*ssa.UnOp); ok {
		if fa, ok := u.X.(*ssa.FieldAddr); ok {
			if pt, ok := fa.X.Type().Underlying().(*types.Pointer); ok {
				if stt, ok := pt.Elem().Underlying().(*types.Struct); ok {
					name = stt.Field(fa.Field).Name()
				}
			}
		}
		if al, ok := u.X.(*ssa.Alloc); ok {
			name = al.Comment
		}
	}
	if name == "" {
		for o, sv := range st.src {
			if !st.srcAddr[o] && sv.T == m.T {
				name = o.Name()
			}
		}
	}
	for _, cl := range top.fc.MapReqs {
		if cl.Anchor != name {
			continue
		}
		g.seenCall[cl] = true
		env := g.envFor(fr, st)
		env.pos = x.Pos()
		env.vars = map[string]Val{"c_key": k, "c_value": v, "c_map": m}
		val, err := g.evalBool(cl.Expr, env)
		if err != nil {
			if lv, ok := g.evalLenient(cl.Expr, env, true); ok {
				val, err = lv, nil
			}
		}
		if err != nil {
			g.contractError(cl, fmt.Errorf("at update of map %s in %s: %v", name, fr.topKey(), err))
			continue
		}
		top.callIdx["mapupdate:"+name]++
		g.addObligation(&Obligation{Name: fmt.Sprintf("%s.mapupdate[%s#%d].requires.%s", fr.topKey(), name, top.callIdx["mapupdate:"+name], cl.Name), Func: fr.topKey(), Kind: "mapreq",
			Props: cl.Props, Guard: fr.curReach, Goal: val, Src: cl.Src, Pos: g.posOf(x)})
	}
}

// checkGoBody executes the function started by a go statement on a clone of the state (see the *ssa.Go case).
func (g *Gen) checkGoBody(fr *Frame, st *State, x *ssa.Go, r string) {
	c := x.Common()
	if c.IsInvoke() {
		return
	}
	_, fn, clo, _, _ := g.calleeInfo(fr, c)
	if fn == nil || len(fn.Blocks) == 0 || !g.isRepoPkg(pkgOfFn(fn)) || fr.onStack(fn) || fr.depth >= g.maxInline {
		return
	}
	cl := st.Clone()
	// captured variables the spawner stores to after the go statement (same block later, or any block reachable from it)
	if clo != nil {
		later := map[*ssa.BasicBlock]bool{}
		var walk func(b *ssa.BasicBlock)
		walk = func(b *ssa.BasicBlock) {
			if later[b] {
				return
			}
			later[b] = true
			for _, s := range b.Succs {
				walk(s)
			}
		}
		blk := x.Block()
		for _, s := range blk.Succs {
			walk(s)
		}
		storesTo := func(addr ssa.Value) bool {
			seenGo := false
			for _, in := range blk.Instrs {
				if in == ssa.Instruction(x) {
					seenGo = true
					continue
				}
				if st, ok := in.(*ssa.Store); ok && seenGo && st.Addr == addr {
					return true
				}
			}
			for b := range later {
				for _, in := range b.Instrs {
					if st, ok := in.(*ssa.Store); ok && st.Addr == addr {
						return true
					}
				}
			}
			return false
		}
		if mc, ok := c.Value.(*ssa.MakeClosure); ok {
			for i, bv := range mc.Bindings {
				if i < len(clo.Bindings) && storesTo(bv) {
					b := clo.Bindings[i]
					if b.Ptr != nil && b.Ptr.Kind == pCell {
						if cur, ok := cl.cells[b.Ptr.Cell]; ok {
							cl.cells[b.Ptr.Cell] = Val{T: g.vc.freshConst("gocap", cur.S), S: cur.S, Ty: cur.Ty}
						}
					}
				}
			}
		}
	}
	cf := g.newFrame(fn, fr)
	if clo != nil {
		cf.free = clo.Bindings
	}
	for i, p := range fn.Params {
		if i < len(c.Args) {
			a := fr.val(c.Args[i])
			a.Ty = p.Type()
			cf.vals[p] = a
			cf.params[p.Name()] = a
			if p.Object() != nil {
				cl.src[p.Object()] = a
				cl.srcAddr[p.Object()] = false
			}
		}
	}
	saveWS := g.ws
	g.ws = nil // writes of the goroutine are not part of the spawner's straight-line effects (escapeArgs handles them)
	g.vc.note("inlined", keyOfSSAFunc(fn)+" (goroutine body, checked on a copy of the state) into "+fr.topKey())
	g.execFunc(cf, cl, r)
	g.ws = saveWS
}
