package main

// Local-variable renames. Contracts name parameters and local variables of the functions they speak about. A change
// that only renames such variables (a pure alpha-renaming of a function declaration with respect to the committed
// HEAD of the repository) must not make a clause unbindable: the renaming is recovered by comparing the committed
// declaration with the one in the working tree, and applied to the identifiers, loop anchors and call-site filters
// of the function's contract (and to the c_<param> names other contracts use for its parameters). Anything that is
// not a pure renaming leaves the contract text as it is.

import (
	"fmt"
	"go/ast"
	"go/parser"
	"go/token"
	"os"
	"os/exec"
	"path/filepath"
	"reflect"
	"regexp"
	"sort"
	"strings"

	"golang.org/x/tools/go/ssa"
)

// inferRenames fills g.renames: top-level function key -> (name in HEAD -> name in the working tree).
func (g *Gen) inferRenames(repo, baseline string) {
	g.renames = map[string]map[string]string{}
	if baseline == "" {
		baseline = repo
	}
	if out, err := exec.Command("git", "-C", baseline, "rev-parse", "--verify", "HEAD").CombinedOutput(); err != nil || len(out) == 0 {
		return
	}
	absRepo, _ := filepath.Abs(repo)
	oldFiles := map[string]*ast.File{}
	newFiles := map[string]*ast.File{}
	seen := map[*ssa.Function]bool{}
	for _, key := range g.cs.FuncOrd {
		fc := g.cs.Funcs[key]
		if fc == nil || fc.Assumed {
			continue
		}
		fn := g.funcByKey[key]
		if fn == nil {
			if i := strings.IndexAny(key, "$@"); i > 0 {
				fn = g.funcByKey[key[:i]]
			}
		}
		if fn == nil {
			continue
		}
		for fn.Parent() != nil {
			fn = fn.Parent()
		}
		if seen[fn] {
			continue
		}
		seen[fn] = true
		decl, ok := fn.Syntax().(*ast.FuncDecl)
		if !ok || decl == nil {
			continue
		}
		file := g.fset.Position(decl.Pos()).Filename
		rel, err := filepath.Rel(absRepo, file)
		if err != nil || strings.HasPrefix(rel, "..") {
			continue
		}
		of, ok := oldFiles[rel]
		if !ok {
			src, err := exec.Command("git", "-C", baseline, "show", "HEAD:"+filepath.ToSlash(rel)).Output()
			if err == nil {
				of, _ = parser.ParseFile(token.NewFileSet(), rel, src, 0)
			}
			oldFiles[rel] = of
		}
		if of == nil {
			continue
		}
		nf, ok := newFiles[rel]
		if !ok {
			nf, _ = parser.ParseFile(token.NewFileSet(), file, nil, 0) // the working tree's file, with identifier resolution
			newFiles[rel] = nf
		}
		if nf == nil {
			continue
		}
		find := func(f *ast.File) *ast.FuncDecl {
			var r *ast.FuncDecl
			for _, d := range f.Decls {
				if fd, ok := d.(*ast.FuncDecl); ok && fd.Name.Name == decl.Name.Name && recvString(fd) == recvString(decl) {
					r = fd
				}
			}
			return r
		}
		oldDecl, newDecl := find(of), find(nf)
		if oldDecl == nil || newDecl == nil {
			continue
		}
		am := &alphaMatcher{m: map[*ast.Object]*ast.Object{}, rev: map[*ast.Object]*ast.Object{}, oldDecl: oldDecl, newDecl: newDecl}
		if !am.match(reflect.ValueOf(oldDecl), reflect.ValueOf(newDecl)) {
			continue
		}
		rn := am.renameMap()
		if len(rn) > 0 {
			g.renames[keyOfSSAFunc(fn)] = rn
			if os.Getenv("GOVC_DEBUG") != "" {
				fmt.Fprintf(os.Stderr, "renames in %s: %v\n", keyOfSSAFunc(fn), rn)
			}
		}
	}
	g.applyRenames()
}

func recvString(fd *ast.FuncDecl) string {
	if fd.Recv == nil || len(fd.Recv.List) == 0 {
		return ""
	}
	var b strings.Builder
	ast.Inspect(fd.Recv.List[0].Type, func(n ast.Node) bool {
		switch x := n.(type) {
		case *ast.Ident:
			b.WriteString(x.Name)
		case *ast.StarExpr:
			b.WriteString("*")
		}
		return true
	})
	return b.String()
}

var (
	posType     = reflect.TypeOf(token.NoPos)
	objType     = reflect.TypeOf((*ast.Object)(nil))
	scopeType   = reflect.TypeOf((*ast.Scope)(nil))
	commentType = reflect.TypeOf((*ast.CommentGroup)(nil))
	identType   = reflect.TypeOf((*ast.Ident)(nil))
)

// alphaMatcher decides whether two function declarations are equal up to a consistent, injective renaming of the
// variables declared inside them (parameters, results, locals; shadowed variables are distinct objects).
type alphaMatcher struct {
	m, rev           map[*ast.Object]*ast.Object
	oldDecl, newDecl *ast.FuncDecl
}

func localVar(o *ast.Object, d *ast.FuncDecl) bool {
	return o != nil && o.Kind == ast.Var && o.Pos() >= d.Pos() && o.Pos() < d.End()
}

func (am *alphaMatcher) match(a, b reflect.Value) bool {
	if a.Kind() != b.Kind() {
		return false
	}
	switch a.Kind() {
	case reflect.Interface:
		if a.IsNil() || b.IsNil() {
			return a.IsNil() == b.IsNil()
		}
		return am.match(a.Elem(), b.Elem())
	case reflect.Ptr:
		if a.Type() != b.Type() {
			return false
		}
		switch a.Type() {
		case objType, scopeType, commentType:
			return true
		}
		if a.IsNil() || b.IsNil() {
			return a.IsNil() == b.IsNil()
		}
		if a.Type() == identType {
			x, y := a.Interface().(*ast.Ident), b.Interface().(*ast.Ident)
			lx, ly := localVar(x.Obj, am.oldDecl), localVar(y.Obj, am.newDecl)
			if lx != ly {
				return false
			}
			if !lx {
				return x.Name == y.Name
			}
			if o, ok := am.m[x.Obj]; ok {
				return o == y.Obj
			}
			if _, ok := am.rev[y.Obj]; ok {
				return false
			}
			am.m[x.Obj], am.rev[y.Obj] = y.Obj, x.Obj
			return true
		}
		return am.match(a.Elem(), b.Elem())
	case reflect.Struct:
		if a.Type() != b.Type() {
			return false
		}
		for i := 0; i < a.NumField(); i++ {
			ft := a.Type().Field(i).Type
			if ft == posType || ft == objType || ft == scopeType || ft == commentType {
				continue
			}
			if !am.match(a.Field(i), b.Field(i)) {
				return false
			}
		}
		return true
	case reflect.Slice:
		if a.Len() != b.Len() {
			return false
		}
		for i := 0; i < a.Len(); i++ {
			if !am.match(a.Index(i), b.Index(i)) {
				return false
			}
		}
		return true
	case reflect.String:
		return a.String() == b.String()
	case reflect.Int, reflect.Int64, reflect.Int32:
		return a.Int() == b.Int()
	case reflect.Bool:
		return a.Bool() == b.Bool()
	}
	return true
}

// renameMap turns the object correspondence into contract-level renames: "x" -> "y" when every variable named x became
// y, and "x__k" -> "y__j" for the k-th variable named x of the function body proper (closure bodies excluded, as in the
// engine's own numbering).
func (am *alphaMatcher) renameMap() map[string]string {
	inLit := func(d *ast.FuncDecl, p token.Pos) bool {
		in := false
		ast.Inspect(d, func(n ast.Node) bool {
			if fl, ok := n.(*ast.FuncLit); ok && p >= fl.Pos() && p < fl.End() {
				in = true
			}
			return !in
		})
		return in
	}
	type ent struct {
		o   *ast.Object
		pos token.Pos
	}
	var olds []ent
	for o := range am.m {
		olds = append(olds, ent{o, o.Pos()})
	}
	sort.Slice(olds, func(i, j int) bool { return olds[i].pos < olds[j].pos })
	var news []ent
	for o := range am.rev {
		news = append(news, ent{o, o.Pos()})
	}
	sort.Slice(news, func(i, j int) bool { return news[i].pos < news[j].pos })
	rn := map[string]string{}
	changed := false
	// plain names
	target := map[string]string{}
	ambiguous := map[string]bool{}
	for _, e := range olds {
		n := am.m[e.o].Name
		if t, ok := target[e.o.Name]; ok && t != n {
			ambiguous[e.o.Name] = true
		}
		target[e.o.Name] = n
		if n != e.o.Name {
			changed = true
		}
	}
	if !changed {
		return nil
	}
	for o, n := range target {
		if !ambiguous[o] && o != n {
			rn[o] = n
		}
	}
	// ordinals among the variables of the function body proper
	ordOld := map[string]int{}
	for _, e := range olds {
		if inLit(am.oldDecl, e.pos) {
			continue
		}
		ordOld[e.o.Name]++
		k := ordOld[e.o.Name]
		no := am.m[e.o]
		j := 0
		for _, ne := range news {
			if inLit(am.newDecl, ne.pos) || ne.o.Name != no.Name {
				continue
			}
			j++
			if ne.o == no {
				break
			}
		}
		from, to := fmt.Sprintf("%s__%d", e.o.Name, k), fmt.Sprintf("%s__%d", no.Name, j)
		if from != to {
			rn[from] = to
		}
	}
	return rn
}

// applyRenames rewrites the contracts in place.
func (g *Gen) applyRenames() {
	if len(g.renames) == 0 {
		return
	}
	topOf := func(key string) string {
		if i := strings.IndexAny(key, "$@"); i > 0 {
			return key[:i]
		}
		return key
	}
	for key, fc := range g.cs.Funcs {
		own := g.renames[topOf(key)]
		ren := func(cl *Clause, callee string) {
			if cl == nil {
				return
			}
			cm := g.renames[topOf(callee)]
			renameExpr(cl.Expr, own, cm, nil)
			renameExpr(cl.When, own, cm, nil)
			if own != nil {
				if cl.Kind == "invariant" || cl.Kind == "decreases" {
					cl.Anchor = renameWords(cl.Anchor, own)
				}
				cl.Arg = renameWords(cl.Arg, own)
			}
		}
		for _, l := range [][]*Clause{fc.Requires, fc.Ensures, fc.Defines, fc.PanicUnless, fc.Inits, fc.Returns, fc.Invs, fc.Decr, fc.MapReqs} {
			for _, cl := range l {
				ren(cl, "")
			}
		}
		for _, l := range [][]*Clause{fc.CallReqs, fc.Binds, fc.CallInvs} {
			for _, cl := range l {
				ren(cl, cl.Anchor)
			}
		}
		for _, m := range fc.Modifies {
			renameExpr(m, own, nil, nil)
		}
	}
}

// renameExpr renames free identifiers: own maps the function's variables, callee maps c_<param> names.
func renameExpr(e *CExpr, own, callee map[string]string, bound map[string]bool) {
	if e == nil {
		return
	}
	switch e.Op {
	case "id":
		if bound[e.Name] {
			return
		}
		if strings.HasPrefix(e.Name, "c_") && callee != nil {
			if n, ok := callee[e.Name[2:]]; ok {
				e.Name = "c_" + n
			}
			return
		}
		if own == nil {
			return
		}
		if n, ok := own[e.Name]; ok {
			e.Name = n // plain name, or an exact x__k entry
		}
		return
	case "forall", "exists":
		nb := map[string]bool{}
		for k := range bound {
			nb[k] = true
		}
		for _, v := range e.BVars {
			nb[v] = true
		}
		for _, a := range e.Args {
			renameExpr(a, own, callee, nb)
		}
		for _, t := range e.Trig {
			renameExpr(t, own, callee, nb)
		}
		return
	}
	for _, a := range e.Args {
		renameExpr(a, own, callee, bound)
	}
}

var reWord = regexp.MustCompile(`[A-Za-z_][A-Za-z0-9_]*`)

func renameWords(s string, m map[string]string) string {
	if s == "" || m == nil {
		return s
	}
	return reWord.ReplaceAllStringFunc(s, func(w string) string {
		if n, ok := m[w]; ok {
			return n
		}
		return w
	})
}
