package main

import (
	"encoding/json"
	"flag"
	"fmt"
	"go/types"
	"os"
	"path/filepath"
	"sort"
	"strings"
	"sync/atomic"
	"time"

	"golang.org/x/tools/go/packages"
	"golang.org/x/tools/go/ssa"
	"golang.org/x/tools/go/ssa/ssautil"
)

type KnownFinding struct {
	Property   string `json:"property"`
	Obligation string `json:"obligation"`
	Status     string `json:"status"` // known | fixed
	What       string `json:"what"`
	Commit     string `json:"commit,omitempty"`
}

func loadProgram(repo string) (*Gen, error) {
	cfg := &packages.Config{Mode: packages.LoadSyntax, Dir: repo, BuildFlags: []string{"-tags=verif", "-mod=readonly"}, Tests: false}
	t0 := time.Now()
	pkgs, err := packages.Load(cfg, "./...")
	if err != nil {
		return nil, err
	}
	var errs []string
	packages.Visit(pkgs, nil, func(p *packages.Package) {
		for _, e := range p.Errors {
			errs = append(errs, e.Error())
		}
	})
	if len(errs) > 0 {
		return nil, fmt.Errorf("package load errors: %s", strings.Join(errs, "; "))
	}
	prog, spkgs := ssautil.Packages(pkgs, ssa.GlobalDebug|ssa.InstantiateGenerics)
	prog.Build()
	g := &Gen{prog: prog, pkgs: map[string]*ssa.Package{}, byName: map[string]*ssa.Package{}, impByName: map[string]*types.Package{},
		fset: prog.Fset, funcByKey: map[string]*ssa.Function{}, keyAlias: map[*ssa.Function]string{}, heapTy: map[string]types.Type{}, maxInline: 6, inlineExt: map[string]bool{}}
	// module path = common prefix: take the shortest package path
	for _, p := range spkgs {
		if p == nil {
			continue
		}
		if g.repoPfx == "" || len(p.Pkg.Path()) < len(g.repoPfx) {
			g.repoPfx = p.Pkg.Path()
		}
	}
	for _, p := range spkgs {
		if p == nil {
			continue
		}
		g.pkgs[p.Pkg.Path()] = p
		g.byName[pkgName(p.Pkg)] = p
	}
	for _, p := range prog.AllPackages() {
		if old, ok := g.impByName[p.Pkg.Name()]; !ok || g.isRepoPkg(p.Pkg) || (!g.isRepoPkg(old) && len(p.Pkg.Path()) < len(old.Path())) {
			g.impByName[p.Pkg.Name()] = p.Pkg
		}
	}
	for fn := range ssautil.AllFunctions(prog) {
		if fn.Synthetic != "" && fn.Parent() == nil && fn.Object() == nil {
			continue
		}
		k := keyOfSSAFunc(fn)
		p := pkgOfFn(fn)
		if old, ok := g.funcByKey[k]; ok && old != fn {
			// prefer repo functions and origins over instantiations
			if g.isRepoPkg(pkgOfFn(old)) && !g.isRepoPkg(p) {
				continue
			}
		}
		g.funcByKey[k] = fn
	}
	_ = t0
	return g, nil
}

func hasProp(ps []string, p string) bool {
	for _, x := range ps {
		if x == p {
			return true
		}
	}
	return false
}

func main() {
	repo := flag.String("repo", "/repo", "repository root")
	specs := flag.String("specs", "/verif/specs", "directory with shared .spec files")
	prop := flag.String("prop", "", "property id (C01...); empty = all contracts")
	tier := flag.String("tier", "quick", "quick | thorough")
	evidence := flag.String("evidence", "", "evidence file to write")
	replays := flag.String("replays", "/verif/replays", "directory for replay files")
	known := flag.String("known", "/verif/known-findings.json", "known findings file")
	only := flag.String("func", "", "verify only this function key (debugging)")
	cacheFlag := flag.String("cache", "/verif/.proofcache", "proof cache directory (\"\" or \"off\" disables it)")
	baseline := flag.String("baseline", "", "git repository whose HEAD is the baseline for local-variable renames (default: -repo)")
	dump := flag.String("dump", "", "directory to keep SMT queries (debugging)")
	timeout := flag.Int("timeout", 0, "per-query timeout in seconds (default 10 quick / 60 thorough)")
	verbose := flag.Bool("v", false, "verbose")
	seed := flag.Int("seed", 0, "seed (recorded in evidence)")
	flag.Parse()
	t0 := time.Now()
	fail := func(f string, a ...any) {
		fmt.Fprintf(os.Stderr, "govc: "+f+"\n", a...)
		os.Exit(2)
	}
	g, err := loadProgram(*repo)
	if err != nil {
		fail("load: %v", err)
	}
	loadS := time.Since(t0).Seconds()
	cs, files, err := LoadAllContracts(*specs, *repo)
	if err != nil {
		fail("%v", err)
	}
	if *cacheFlag != "" && *cacheFlag != "off" && os.Getenv("GOVC_NOCACHE") == "" {
		if err := os.MkdirAll(*cacheFlag, 0o755); err == nil {
			cacheDir = *cacheFlag
		}
	}
	g.cs = cs
	g.inferRenames(*repo, *baseline)
	g.lockObls = true
	tmo := *timeout
	if tmo == 0 {
		tmo = 30
		if *tier == "thorough" {
			tmo = 90
		}
	}

	scratch := *dump
	if scratch == "" {
		base := "/dev/shm"
		if _, err := os.Stat(base); err != nil {
			base = os.TempDir()
		}
		scratch, err = os.MkdirTemp(base, "govc.")
		if err != nil {
			fail("scratch: %v", err)
		}
		cleanupScratch = scratch
	} else {
		os.MkdirAll(scratch, 0o755)
	}

	// select work
	var items []oblItem
	var funcs []string
	var notes []string
	genT0 := time.Now()
	for _, key := range cs.FuncOrd {
		fc := cs.Funcs[key]
		if fc.Assumed {
			continue
		}
		if *only != "" && key != *only {
			continue
		}
		if *prop != "" && !hasProp(fc.Props, *prop) {
			continue
		}
		vc := g.verifyFunc(fc)
		funcs = append(funcs, key)
		for _, o := range vc.obls {
			// Clause-level tags say which property a clause was written for; they no longer filter. Every
			// obligation of a function that is in the property's dependency set (its `props`) runs under that
			// property: seeded changes showed that a change breaking property X is often caught by a clause
			// written for a neighbouring property Y of the same function.
			_ = o.Props
			items = append(items, oblItem{vc, o})
		}
		for _, n := range vc.notes {
			notes = append(notes, key+": "+n)
		}
	}
	{
		// first in the queue: it has the longest budget and overlaps with everything else
		vc := g.theoryConsistency()
		var th []oblItem
		for _, o := range vc.obls {
			th = append(th, oblItem{vc, o})
		}
		items = append(th, items...)
	}
	if *only == "" {
		for _, ax := range cs.Axioms {
			if !ax.Lemma {
				continue
			}
			if *prop != "" && !hasProp(ax.Props, *prop) {
				continue
			}
			vc := g.verifyLemma(ax)
			for _, o := range vc.obls {
				items = append(items, oblItem{vc, o})
			}
		}
		for _, c := range cs.Census {
			if *prop != "" && !hasProp(c.Props, *prop) {
				continue
			}
			items = append(items, oblItem{nil, g.runCensus(c)})
		}
	}
	genS := time.Since(genT0).Seconds()
	solveT0 := time.Now()
	dischargeAll(scratch, items, tmo, *tier == "thorough")
	solveS := time.Since(solveT0).Seconds()
	if os.Getenv("GOVC_DEBUG") != "" {
		fmt.Fprintf(os.Stderr, "query text generation (cpu, summed over workers): %.1fs\n", float64(queryGenNs)/1e9)
	}

	// known findings
	var kfs []KnownFinding
	if data, err := os.ReadFile(*known); err == nil {
		json.Unmarshal(data, &kfs)
	}
	isKnown := func(name string) *KnownFinding {
		for i := range kfs {
			if kfs[i].Status == "known" && kfs[i].Obligation == name && (*prop == "" || kfs[i].Property == *prop) {
				return &kfs[i]
			}
		}
		return nil
	}

	// classify
	total, discharged, covers, coversOK := 0, 0, 0, 0
	var solverMs int64
	var violations []*Obligation
	var engineErrs []*Obligation
	var knownHit []string
	var samples []any
	for _, it := range items {
		o := it.o
		solverMs += o.Ms
		if o.Expect == "sat" {
			covers++
			if *verbose {
				fmt.Fprintf(os.Stderr, "  cover %-8s %6dms %s  %s\n", o.Status, o.Ms, o.Name, truncate(o.Output, 160))
			}
			if o.Status == "ok" {
				coversOK++
			} else {
				engineErrs = append(engineErrs, o)
			}
			continue
		}
		total++
		switch o.Status {
		case "discharged":
			discharged++
		case "engine-error":
			engineErrs = append(engineErrs, o)
		default:
			if kf := isKnown(o.Name); kf != nil {
				knownHit = append(knownHit, fmt.Sprintf("KNOWN-FINDING: property=%s %s: %s", kf.Property, o.Name, kf.What))
				continue
			}
			violations = append(violations, o)
		}
		if *verbose || o.Status != "discharged" {
			fmt.Fprintf(os.Stderr, "  %-12s %-8s %6dms %s\n", o.Status, o.Solver, o.Ms, o.Name)
			if o.Status != "discharged" {
				fmt.Fprintf(os.Stderr, "      %s\n      %s\n", o.Src, truncate(o.Output, 600))
			}
		}
	}
	sort.Slice(items, func(i, j int) bool { return items[i].o.Name < items[j].o.Name })
	for i, it := range items {
		if i < 400 {
			samples = append(samples, map[string]any{"name": it.o.Name, "kind": it.o.Kind, "status": it.o.Status, "solver": it.o.Solver, "cached": it.o.Cached, "ms": it.o.Ms, "clause": truncate(it.o.Src, 200)})
		}
	}
	for _, l := range knownHit {
		fmt.Println(l)
	}

	exit := 0
	pid := *prop
	if pid == "" {
		pid = "ALL"
	}
	if total == 0 && len(engineErrs) == 0 {
		fmt.Fprintf(os.Stderr, "govc: no obligations generated for %s — vacuous check\n", pid)
		exit = 2
	}
	for _, o := range engineErrs {
		fmt.Fprintf(os.Stderr, "ENGINE-ERROR %s: %s %s\n", o.Name, o.Status, truncate(o.Output, 800))
		exit = 2
	}
	if len(violations) > 0 {
		exit = 1 // failed obligations are reported even if other obligations hit engine errors (vacuity can only hide failures)
	}
	vcOf := map[*Obligation]*VC{}
	for _, it := range items {
		vcOf[it.o] = it.vc
	}
	for _, o := range violations {
		dir := filepath.Join(*replays, pid)
		os.MkdirAll(dir, 0o755)
		rp := filepath.Join(dir, sanitize(o.Name)+".json")
		rep := map[string]any{"property": pid, "obligation": o.Name, "kind": o.Kind, "status": o.Status, "clause": o.Src, "position": o.Pos,
			"solver_output": o.Output, "model": o.Model, "function": o.Func}
		suffix := " no-failing-input-found"
		if (o.Status == "refuted" || o.Status == "undischarged") && (o.Kind == "nopanic" || o.Kind == "ensures" || o.Kind == "returns") {
			if ok, info := g.tryReplay(oblItem{vcOf[o], o}, pid, rep); ok {
				suffix = ""
				rep["replay"] = info
			} else {
				rep["replay"] = info
			}
		}
		if o.Kind == "census" || o.Kind == "binding" {
			rep["note"] = "static obligation: the reported call sites / missing bindings are the evidence"
		}
		data, _ := json.MarshalIndent(rep, "", " ")
		os.WriteFile(rp, data, 0o644)
		fmt.Printf("VIOLATION property=%s replay=%s obligation=%s%s\n", pid, rp, o.Name, suffix)
	}

	if *evidence != "" {
		sort.Strings(notes)
		tb := trustedBase(cs, notes)
		ev := map[string]any{
			"property_id": pid, "tier": *tier, "seed": *seed, "level": "proof",
			"coverage": map[string]any{
				"obligations": total, "discharged": discharged,
				"checker_cmd":              strings.Join(os.Args, " "),
				"trusted_base":             tb,
				"samples":                  samples,
				"functions_under_contract": funcs,
				"vacuity_covers":           covers, "vacuity_covers_ok": coversOK,
				"solver_time_s": float64(solverMs) / 1000.0, "solve_wall_s": solveS, "proof_cache_hits": atomic.LoadInt64(&cacheHits),
				"proof_cache": "an obligation whose complete SMT query text (SHA-256) was answered the expected way earlier on this machine is not solved again; only successes are cached, failures are always re-solved; samples[].cached marks them", "load_s": loadS, "vcgen_s": genS,
				"back_ends":      "z3-new 5.1.0, z3 4.8.12, cvc5 1.0 raced per obligation; census/binding obligations decided statically over go/ssa",
				"known_findings": knownHit,
				"engine_notes":   notes,
				"contract_files": files,
			},
			"assumptions": assumptionsList(cs, notes),
			"wall_s":      time.Since(t0).Seconds(),
			"violations":  len(violations),
		}
		data, _ := json.MarshalIndent(ev, "", " ")
		os.MkdirAll(filepath.Dir(*evidence), 0o755)
		if err := os.WriteFile(*evidence, data, 0o644); err != nil {
			fail("evidence: %v", err)
		}
	}
	fmt.Fprintf(os.Stderr, "govc: %s %s: %d/%d obligations discharged, %d covers ok/%d, %d violations, %d engine errors, %.1fs (load %.1fs gen %.1fs solve %.1fs, %d from proof cache)\n",
		pid, *tier, discharged, total, coversOK, covers, len(violations), len(engineErrs), time.Since(t0).Seconds(), loadS, genS, solveS, atomic.LoadInt64(&cacheHits))
	if cleanupScratch != "" {
		os.RemoveAll(cleanupScratch) // os.Exit skips deferred calls
	}
	os.Exit(exit)
}

var cleanupScratch string

func trustedBase(cs *Contracts, notes []string) []string {
	var tb []string
	tb = append(tb, "Go type checker and x/tools go/ssa builder (the verified text is the SSA built from /repo on this run)")
	tb = append(tb, "govc instruction semantics (self-tested by the must-fail corpus) and SMT solvers z3/z3-new/cvc5")
	for _, k := range cs.FuncOrd {
		fc := cs.Funcs[k]
		if fc.Assumed && fc.Used {
			tb = append(tb, "assumed contract: "+k)
		}
		for _, d := range fc.Defines {
			tb = append(tb, "definitional postcondition of "+k+": "+d.Src)
		}
	}
	for _, ax := range cs.Axioms {
		if !ax.Lemma {
			tb = append(tb, "axiom: "+ax.Name)
		}
	}
	return tb
}

func assumptionsList(cs *Contracts, notes []string) []string {
	as := []string{
		"64-bit signed integer arithmetic is treated as mathematical in Int mode (no overflow), exact in functions marked `mode bv`",
		"append never aliases its argument's backing array; byte slices and strings are immutable values",
		"external functions without a contract return arbitrary values and only modify memory reachable from their pointer arguments (type-based frame)",
		"package-level variables are not modified by external calls",
		"goroutine interleavings are not explored (sequential reasoning per function; lock discipline obligations where stated)",
	}
	seen := map[string]bool{}
	for _, n := range notes {
		if i := strings.Index(n, ": "); i >= 0 {
			rest := n[i+2:]
			if strings.HasPrefix(rest, "unmodelled") || strings.HasPrefix(rest, "havoc-all") {
				if !seen[rest] {
					seen[rest] = true
					as = append(as, rest)
				}
			}
		}
	}
	return as
}
