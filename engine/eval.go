package main

// Evaluation of contract expressions to SMT terms in a symbolic state.

import (
	"fmt"
	"go/constant"
	"go/token"
	"go/types"
	"os"
	"regexp"
	"strconv"
	"strings"
)

type Env struct {
	g       *Gen
	fr      *Frame
	st      *State
	old     *State
	vars    map[string]Val
	params  map[string]Val // initial parameter values: used when no current source value is known
	pkg     *types.Package
	useSrc  bool
	pos     token.Pos
	entrySt *State // state at loop entry, for atEntry(e)
	headSt  *State // loop-head state of the current iteration, for atHead(e)
	loopIdx *Val   // value of the hidden index of the range loop whose invariant is being evaluated
	noHeap  bool   // pure-function bodies and lemmas: no memory access
}

func (g *Gen) envFor(fr *Frame, st *State) *Env {
	e := &Env{g: g, fr: fr, st: st, vars: map[string]Val{}, useSrc: true}
	top := fr
	for top.parent != nil {
		top = top.parent
	}
	e.old = top.old
	if fr.fn != nil && fr.fn.Pkg != nil {
		e.pkg = fr.fn.Pkg.Pkg
	} else if fr.fn != nil && fr.fn.Parent() != nil && fr.fn.Parent().Pkg != nil {
		e.pkg = fr.fn.Parent().Pkg.Pkg
	}
	e.params = fr.params
	return e
}

func (e *Env) with(vars map[string]Val) *Env {
	n := *e
	n.vars = map[string]Val{}
	for k, v := range e.vars {
		n.vars[k] = v
	}
	for k, v := range vars {
		n.vars[k] = v
	}
	return &n
}

func (g *Gen) evalBool(x *CExpr, env *Env) (string, error) {
	v, err := g.eval(x, env)
	if err != nil {
		return "", err
	}
	if v.S != "Bool" {
		return "", fmt.Errorf("expression %s is not boolean (sort %s)", x, v.S)
	}
	return v.T, nil
}

// sortOfTypeName maps a type name used in contracts to an SMT sort and (if it names a Go type) the Go type.
var reByteArray = regexp.MustCompile(`^\[([0-9]+)\]byte$`)

func (g *Gen) sortOfTypeName(name string, pkg *types.Package) (string, types.Type, error) {
	switch name {
	case "int", "int64", "int32", "int16", "int8", "uint", "uint64", "uint32", "uint16", "uint8", "byte", "Int":
		return "Int", types.Typ[types.Int64], nil
	case "bool", "Bool":
		return "Bool", types.Typ[types.Bool], nil
	case "string", "bytes", "[]byte", "Str":
		return "Str", types.Typ[types.String], nil
	case "error", "any", "Ref", "chan", "func":
		return "Int", nil, nil
	case "Slice":
		return "Slice", nil, nil
	case "set[string]", "set[bytes]":
		return "(Array Str Bool)", nil, nil
	case "map[string]bytes", "map[string]string":
		return "(Array Str Str)", nil, nil
	case "map[string]int":
		return "(Array Str Int)", nil, nil
	case "map[string]Ref":
		return "(Array Str Int)", nil, nil
	case "set[int]", "set[Ref]":
		return "(Array Int Bool)", nil, nil
	case "map[int]int", "map[Ref]int", "map[Ref]Ref":
		return "(Array Int Int)", nil, nil
	case "map[int]bytes", "map[Ref]bytes":
		return "(Array Int Str)", nil, nil
	}
	for _, s := range g.cs.Sorts {
		if s == name {
			return name, nil, nil
		}
	}
	// ghost containers: set[K], map[K]V over basic sorts
	if strings.HasPrefix(name, "set[") && strings.HasSuffix(name, "]") {
		if ks, _, err := g.sortOfTypeName(name[4:len(name)-1], pkg); err == nil {
			return "(Array " + ks + " Bool)", nil, nil
		}
	}
	if strings.HasPrefix(name, "map[") {
		if i := strings.Index(name, "]"); i > 0 {
			ks, _, err1 := g.sortOfTypeName(name[4:i], pkg)
			vs, _, err2 := g.sortOfTypeName(name[i+1:], pkg)
			if err1 == nil && err2 == nil {
				return "(Array " + ks + " " + vs + ")", nil, nil
			}
		}
	}
	if strings.HasPrefix(name, "*") {
		_, t, err := g.sortOfTypeName(name[1:], pkg)
		if err == nil && t != nil {
			return "Int", types.NewPointer(t), nil
		}
		return "Int", nil, nil
	}
	if m := reByteArray.FindStringSubmatch(name); m != nil {
		n := int64(0)
		fmt.Sscan(m[1], &n)
		return "Str", types.NewArray(types.Typ[types.Uint8], n), nil
	}
	if strings.HasPrefix(name, "[]") {
		_, t, _ := g.sortOfTypeName(name[2:], pkg)
		if t != nil {
			return g.sortOf(types.NewSlice(t)), types.NewSlice(t), nil
		}
		return "Slice", nil, nil
	}
	if t := g.lookupType(name, pkg); t != nil {
		return g.sortOf(t), t, nil
	}
	return "", nil, fmt.Errorf("unknown type %q", name)
}

func (g *Gen) lookupType(name string, pkg *types.Package) types.Type {
	pk, tn := "", name
	if i := strings.LastIndex(name, "."); i >= 0 && strings.Contains(name, "/") {
		// full import path: github.com/x/y/types.Name
		path := name[:i]
		if p := g.findByPath(path); p != nil {
			if o, ok := p.Scope().Lookup(name[i+1:]).(*types.TypeName); ok {
				return o.Type()
			}
		}
		return nil
	}
	if i := strings.Index(name, "."); i >= 0 {
		pk, tn = name[:i], name[i+1:]
	}
	var scope *types.Scope
	if pk == "" {
		if pkg == nil {
			return nil
		}
		scope = pkg.Scope()
	} else if sp, ok := g.byName[pk]; ok {
		scope = sp.Pkg.Scope()
	} else if p := g.findImported(pk); p != nil {
		scope = p.Scope()
	}
	if scope == nil {
		return nil
	}
	if o, ok := scope.Lookup(tn).(*types.TypeName); ok {
		return o.Type()
	}
	return nil
}

func (g *Gen) findImported(name string) *types.Package {
	if p, ok := g.impByName[name]; ok {
		return p
	}
	// search the import graph of the module's packages
	seen := map[*types.Package]bool{}
	var found *types.Package
	var visit func(p *types.Package, depth int)
	visit = func(p *types.Package, depth int) {
		if found != nil || seen[p] || depth > 4 {
			return
		}
		seen[p] = true
		for _, imp := range p.Imports() {
			if imp.Name() == name {
				found = imp
				return
			}
		}
		for _, imp := range p.Imports() {
			visit(imp, depth+1)
		}
	}
	for _, sp := range g.pkgs {
		visit(sp.Pkg, 0)
	}
	if found != nil {
		g.impByName[name] = found
	}
	return found
}

// findField resolves a (possibly promoted) field; returns the path of field names and the field type.
func findField(t types.Type, name string) ([]string, types.Type, bool) {
	st, ok := types.Unalias(t).Underlying().(*types.Struct)
	if !ok {
		return nil, nil, false
	}
	for i := 0; i < st.NumFields(); i++ {
		f := st.Field(i)
		if f.Name() == name {
			return []string{name}, f.Type(), true
		}
	}
	for i := 0; i < st.NumFields(); i++ {
		f := st.Field(i)
		if f.Embedded() {
			ft := f.Type()
			if p, ok := ft.Underlying().(*types.Pointer); ok {
				_ = p
				continue // promoted through pointer embedding: not supported in places
			}
			if path, ty, ok := findField(ft, name); ok {
				return append([]string{f.Name()}, path...), ty, true
			}
		}
	}
	return nil, nil, false
}

// place evaluates an expression denoting a memory location.
func (g *Gen) place(x *CExpr, env *Env) (*Ptr, error) {
	switch x.Op {
	case "id":
		if _, ok := env.vars[x.Name]; ok {
			return nil, fmt.Errorf("%s is not addressable", x.Name)
		}
		if env.useSrc && env.st != nil {
			if o, ok := g.lookupSrc(env, x.Name); ok && env.st.srcAddr[o] {
				if p := g.ptrOf(env.st.src[o]); p != nil {
					return p, nil
				}
			}
		}
		if gv, ok := g.cs.Ghosts[x.Name]; ok {
			srt, ty, err := g.sortOfTypeName(gv.Type, env.pkg)
			if err != nil {
				return nil, err
			}
			return &Ptr{Kind: pCell, Cell: "ghost$" + x.Name, Ty: ghostType{srt, ty}}, nil
		}
		if env.pkg != nil {
			if o, ok := env.pkg.Scope().Lookup(x.Name).(*types.Var); ok {
				return &Ptr{Kind: pGlobal, Cell: "G$" + pkgName(env.pkg) + "." + o.Name(), Ty: o.Type()}, nil
			}
		}
		return nil, fmt.Errorf("unknown location %s", x.Name)
	case "sel":
		// package-qualified global?
		if x.Args[0].Op == "id" {
			if _, shadow := env.vars[x.Args[0].Name]; !shadow {
				if p := g.pkgByName(x.Args[0].Name, env); p != nil {
					if o, ok := p.Scope().Lookup(x.Name).(*types.Var); ok {
						return &Ptr{Kind: pGlobal, Cell: "G$" + pkgName(p) + "." + o.Name(), Ty: o.Type()}, nil
					}
				}
			}
		}
		// base as place (struct-typed location)?
		if bp, err := g.place(x.Args[0], env); err == nil && bp != nil && bp.Kind == pField {
			if _, isStruct := types.Unalias(bp.Ty).Underlying().(*types.Struct); isStruct {
				path, ty, ok := findField(bp.Ty, x.Name)
				if !ok {
					return nil, fmt.Errorf("no field %s in %s", x.Name, bp.Ty)
				}
				return &Ptr{Kind: pField, Base: bp.Base, Struct: bp.Struct, Path: append(append([]string{}, bp.Path...), path...), Ty: ty}, nil
			}
		}
		bv, err := g.eval(x.Args[0], env)
		if err != nil {
			return nil, err
		}
		if gt, ok := bv.Ty.(ghostType); ok && gt.ty != nil {
			bv.Ty = gt.ty // a ghost field declared with a Go pointer type (e.g. *bytes.Buffer) can be dereferenced
		}
		if bv.Ty == nil {
			return nil, fmt.Errorf("cannot select %s on untyped value", x.Name)
		}
		if pt, ok := types.Unalias(bv.Ty).Underlying().(*types.Pointer); ok {
			bp := g.ptrOf(bv)
			if bp == nil || bp.Kind != pField {
				return nil, fmt.Errorf("cannot resolve pointer %s", x.Args[0])
			}
			path, ty, ok := findField(pt.Elem(), x.Name)
			if !ok {
				if gp, gty, gok := g.ghostField(pt.Elem(), x.Name); gok {
					path, ty, ok = gp, gty, true
				}
			}
			if !ok {
				return nil, fmt.Errorf("no field %s in %s", x.Name, pt.Elem())
			}
			return &Ptr{Kind: pField, Base: bp.Base, Struct: bp.Struct, Path: append(append([]string{}, bp.Path...), path...), Ty: ty}, nil
		}
		return nil, fmt.Errorf("%s is not a location", x)
	case "call":
		if x.Name == "backing" && len(x.Args) == 1 {
			v, err := g.eval(x.Args[0], env)
			if err != nil {
				return nil, err
			}
			if v.Ptr != nil {
				return v.Ptr, nil
			}
			return nil, fmt.Errorf("backing array of %s is not statically known", x.Args[0])
		}
	case "un":
		if x.Name == "*" {
			v, err := g.eval(x.Args[0], env)
			if err != nil {
				return nil, err
			}
			if p := g.ptrOf(v); p != nil {
				return p, nil
			}
			return nil, fmt.Errorf("cannot dereference %s", x.Args[0])
		}
	case "idx":
		bv, err := g.eval(x.Args[0], env)
		if err != nil {
			return nil, err
		}
		iv, err := g.eval(x.Args[1], env)
		if err != nil {
			return nil, err
		}
		if bv.S == "Slice" && bv.Ty != nil {
			el := types.Unalias(bv.Ty).Underlying().(*types.Slice).Elem()
			return &Ptr{Kind: pElem, Arr: fmt.Sprintf("(sarr %s)", bv.T), Idx: fmt.Sprintf("(idx$ (soff %s) %s)", bv.T, iv.T), Ty: el}, nil
		}
	}
	return nil, fmt.Errorf("%s is not a location", x)
}

// ghostType carries the sort of a ghost variable through Ptr.Ty.
type ghostType struct {
	srt string
	ty  types.Type
}

func (t ghostType) Underlying() types.Type { return t }
func (t ghostType) String() string         { return "ghost " + t.srt }

func (g *Gen) pkgByName(name string, env *Env) *types.Package {
	if env.pkg != nil {
		if pkgName(env.pkg) == name {
			return env.pkg
		}
		for _, imp := range env.pkg.Imports() {
			if imp.Name() == name {
				return imp
			}
		}
	}
	if sp, ok := g.byName[name]; ok {
		return sp.Pkg
	}
	return g.findImported(name)
}

func (g *Gen) ghostLoad(name string, env *Env) (Val, bool) {
	gv, ok := g.cs.Ghosts[name]
	if !ok {
		return Val{}, false
	}
	srt, ty, err := g.sortOfTypeName(gv.Type, env.pkg)
	if err != nil {
		return Val{}, false
	}
	id := "ghost$" + name
	if v, ok := env.st.cells[id]; ok {
		return v, true
	}
	init := "C0$" + sanitize(id)
	g.vc.decl(init, fmt.Sprintf("(declare-const %s %s)", init, srt))
	v := Val{T: init, S: srt, Ty: ty}
	env.st.cells[id] = v
	return v, true
}

func (g *Gen) eval(x *CExpr, env *Env) (Val, error) {
	switch x.Op {
	case "int":
		n, err := strconv.ParseInt(x.Name, 0, 64)
		if err != nil {
			u, err2 := strconv.ParseUint(x.Name, 0, 64)
			if err2 != nil {
				return Val{}, err
			}
			return Val{T: fmt.Sprint(u), S: "Int", Ty: types.Typ[types.UntypedInt]}, nil
		}
		return Val{T: g.intLit(n, "Int"), S: "Int", Ty: types.Typ[types.UntypedInt]}, nil
	case "bool":
		return Val{T: x.Name, S: "Bool", Ty: types.Typ[types.Bool]}, nil
	case "str":
		return Val{T: g.strLit(x.Name), S: "Str", Ty: types.Typ[types.String]}, nil
	case "char":
		s, err := strconv.Unquote("'" + x.Name + "'")
		if err != nil || len(s) == 0 {
			return Val{}, fmt.Errorf("bad char literal")
		}
		return Val{T: fmt.Sprint(int(s[0])), S: "Int", Ty: types.Typ[types.UntypedInt]}, nil
	case "id":
		return g.evalIdent(x, env)
	case "call":
		if x.Name == "atEntry" && len(x.Args) == 1 {
			if env.entrySt == nil {
				return Val{}, fmt.Errorf("atEntry() is only available in loop invariants")
			}
			n := *env
			n.st = env.entrySt
			return g.eval(x.Args[0], &n)
		}
		if x.Name == "atHead" && len(x.Args) == 1 {
			if env.headSt == nil {
				return Val{}, fmt.Errorf("atHead() is only available in loop invariants")
			}
			n := *env
			n.st = env.headSt
			return g.eval(x.Args[0], &n)
		}
		return g.evalCall(x, env)
	case "old":
		if env.old == nil {
			return Val{}, fmt.Errorf("old() not available here")
		}
		n := *env
		n.st = env.old
		return g.eval(x.Args[0], &n)
	case "sel":
		return g.evalSel(x, env)
	case "idx":
		bv, err := g.eval(x.Args[0], env)
		if err != nil {
			return Val{}, err
		}
		iv, err := g.eval(x.Args[1], env)
		if err != nil {
			return Val{}, err
		}
		switch bv.S {
		case "Str":
			t := fmt.Sprintf("(at %s %s)", bv.T, g.toInt(iv))
			if g.bv {
				return Val{T: fmt.Sprintf("((_ zero_extend 56) (atbv %s %s))", bv.T, g.toInt(iv)), S: "(_ BitVec 64)", Ty: types.Typ[types.Uint64]}, nil
			}
			return Val{T: t, S: "Int", Ty: types.Typ[types.Uint8]}, nil
		case "Slice":
			if env.noHeap {
				return Val{}, fmt.Errorf("slice indexing needs memory")
			}
			var el types.Type
			if bv.Ty != nil {
				el = types.Unalias(bv.Ty).Underlying().(*types.Slice).Elem()
			}
			srt := g.sortOf(el)
			h := g.heapTerm(env.st, "HA$"+srt, "(Array Int (Array Int "+srt+"))")
			return Val{T: fmt.Sprintf("(select (select %s (sarr %s)) (idx$ (soff %s) %s))", h, bv.T, bv.T, iv.T), S: srt, Ty: el}, nil
		case "Int":
			if bv.Ty != nil {
				if mt, ok := types.Unalias(bv.Ty).Underlying().(*types.Map); ok && !env.noHeap {
					dn, ds, vn, vs := g.mapHeaps(mt)
					dh := g.heapTerm(env.st, dn, ds)
					vh := g.heapTerm(env.st, vn, vs)
					// Go semantics: the zero value when the key is absent
					present := fmt.Sprintf("(select (select %s %s) %s)", dh, bv.T, iv.T)
					return Val{T: sIte(present, fmt.Sprintf("(select (select %s %s) %s)", vh, bv.T, iv.T), g.zero(mt.Elem())), S: g.sortOf(mt.Elem()), Ty: mt.Elem()}, nil
				}
			}
		}
		if strings.HasPrefix(bv.S, "(Array ") {
			parts := splitArraySort(bv.S)
			if parts != nil && parts[0] == iv.S {
				return Val{T: fmt.Sprintf("(select %s %s)", bv.T, iv.T), S: parts[1]}, nil
			}
			return Val{}, fmt.Errorf("index sort mismatch on %s", x.Args[0])
		}
		return Val{}, fmt.Errorf("cannot index %s (sort %s)", x.Args[0], bv.S)
	case "slice":
		bv, err := g.eval(x.Args[0], env)
		if err != nil {
			return Val{}, err
		}
		if bv.S != "Str" {
			return Val{}, fmt.Errorf("slicing only on byte strings")
		}
		lo, hi := "0", fmt.Sprintf("(slen %s)", bv.T)
		if x.Args[1] != nil {
			v, err := g.eval(x.Args[1], env)
			if err != nil {
				return Val{}, err
			}
			lo = g.toInt(v)
		}
		if x.Args[2] != nil {
			v, err := g.eval(x.Args[2], env)
			if err != nil {
				return Val{}, err
			}
			hi = g.toInt(v)
		}
		return Val{T: fmt.Sprintf("(sub %s %s %s)", bv.T, lo, hi), S: "Str", Ty: bv.Ty}, nil
	case "un":
		if x.Name == "*" {
			p, err := g.place(x, env)
			if err != nil {
				return Val{}, err
			}
			if env.noHeap {
				return Val{}, fmt.Errorf("dereference in a pure context")
			}
			return g.loadPtr(env.st, p), nil
		}
		if x.Name == "&" {
			p, err := g.place(x.Args[0], env)
			if err != nil {
				return Val{}, err
			}
			return Val{T: g.ptrTerm(p), S: "Int", Ty: types.NewPointer(p.Ty), Ptr: p}, nil
		}
		v, err := g.eval(x.Args[0], env)
		if err != nil {
			return Val{}, err
		}
		switch x.Name {
		case "!":
			if v.S != "Bool" {
				return Val{}, fmt.Errorf("! on non-bool")
			}
			return Val{T: sNot(v.T), S: "Bool", Ty: v.Ty}, nil
		case "-":
			if strings.HasPrefix(v.S, "(_ BitVec") {
				return Val{T: fmt.Sprintf("(bvneg %s)", v.T), S: v.S, Ty: v.Ty}, nil
			}
			return Val{T: fmt.Sprintf("(- %s)", v.T), S: v.S, Ty: v.Ty}, nil
		}
		return Val{}, fmt.Errorf("unsupported unary %s", x.Name)
	case "bin":
		return g.evalBin(x, env)
	case "forall", "exists":
		vars := map[string]Val{}
		var bs []string
		for i, n := range x.BVars {
			srt, ty, err := g.sortOfTypeName(x.BTypes[i], env.pkg)
			if err != nil {
				return Val{}, err
			}
			bn := fmt.Sprintf("%s!b%d", sanitize(n), g.vc.fresh)
			g.vc.fresh++
			vars[n] = Val{T: bn, S: srt, Ty: ty}
			bs = append(bs, fmt.Sprintf("(%s %s)", bn, srt))
		}
		qenv := env.with(vars)
		body, err := g.evalBool(x.Args[0], qenv)
		if err != nil {
			return Val{}, err
		}
		if len(x.Trig) > 0 {
			var ts []string
			for _, t := range x.Trig {
				tv, err := g.eval(t, qenv)
				if err != nil {
					return Val{}, err
				}
				ts = append(ts, tv.T)
			}
			body = fmt.Sprintf("(! %s :pattern (%s))", body, strings.Join(ts, " "))
		}
		return Val{T: fmt.Sprintf("(%s (%s) %s)", x.Op, strings.Join(bs, " "), body), S: "Bool", Ty: types.Typ[types.Bool]}, nil
	}
	return Val{}, fmt.Errorf("unsupported expression %s", x)
}

func (g *Gen) evalIdent(x *CExpr, env *Env) (Val, error) {
	name := x.Name
	if v, ok := env.vars[name]; ok {
		return v, nil
	}
	if name == "rangeindex" && env.loopIdx != nil {
		return *env.loopIdx, nil
	}
	if env.st != nil {
		if v, ok := env.st.cells["bind$"+name]; ok {
			return v, nil
		}
	}
	if name == "nil" {
		return Val{T: "0", S: "Int", Ty: types.Typ[types.UntypedNil]}, nil
	}
	if env.useSrc && env.st != nil {
		if o, ok := g.lookupSrc(env, name); ok {
			v := env.st.src[o]
			if env.st.srcAddr[o] {
				if p := g.ptrOf(v); p != nil {
					return g.loadPtr(env.st, p), nil
				}
			} else {
				if v.Ptr != nil && v.Ptr.Buf {
					if cur, ok := env.st.cells[v.Ptr.Cell]; ok {
						v.T = cur.T
					}
				}
				return v, nil
			}
		}
	}
	if v, ok := env.params[name]; ok {
		return v, nil
	}
	if env.st != nil {
		if v, ok := g.ghostLoad(name, env); ok {
			return v, nil
		}
	}
	if pf, ok := g.cs.Pures[name]; ok && len(pf.Params) == 0 {
		return g.applyPure(pf, nil, env)
	}
	if env.pkg != nil {
		if v, ok := g.pkgObject(env.pkg, name, env); ok {
			return v, nil
		}
	}
	if os.Getenv("GOVC_DEBUG") != "" {
		o, ok := g.lookupSrc(env, name)
		fmt.Fprintf(os.Stderr, "evalIdent %s failed: useSrc=%v st=%v pos=%v lookupSrc=(%v,%v)\n", name, env.useSrc, env.st != nil, g.prog.Fset.Position(env.pos), o, ok)
		if ok {
			fmt.Fprintf(os.Stderr, "   src=%+v addr=%v\n", env.st.src[o], env.st.srcAddr[o])
		}
	}
	return Val{}, fmt.Errorf("unknown identifier %s", name)
}

func (g *Gen) pkgObject(p *types.Package, name string, env *Env) (Val, bool) {
	switch o := p.Scope().Lookup(name).(type) {
	case *types.Const:
		return g.constObj(o), true
	case *types.Var:
		if env.st == nil || env.noHeap {
			// stable global (sentinel): its initial value
			id := "G$" + pkgName(p) + "." + o.Name()
			init := "C0$" + sanitize(id)
			srt := g.sortOf(o.Type())
			g.vc.decl(init, fmt.Sprintf("(declare-const %s %s)", init, srt))
			return Val{T: init, S: srt, Ty: o.Type()}, true
		}
		ptr := &Ptr{Kind: pGlobal, Cell: "G$" + pkgName(p) + "." + o.Name(), Ty: o.Type()}
		return g.loadPtr(env.st, ptr), true
	}
	return Val{}, false
}

func (g *Gen) constObj(o *types.Const) Val {
	t := o.Type()
	switch o.Val().Kind() {
	case constant.Bool:
		return Val{T: fmt.Sprint(constant.BoolVal(o.Val())), S: "Bool", Ty: t}
	case constant.String:
		return Val{T: g.strLit(constant.StringVal(o.Val())), S: "Str", Ty: t}
	case constant.Int:
		if i, ok := constant.Int64Val(o.Val()); ok {
			return Val{T: g.intLit(i, "Int"), S: "Int", Ty: types.Typ[types.UntypedInt]}
		}
		return Val{T: o.Val().ExactString(), S: "Int", Ty: types.Typ[types.UntypedInt]}
	}
	return g.freshVal("const", t)
}

func (g *Gen) evalSel(x *CExpr, env *Env) (Val, error) {
	// package-qualified object
	if x.Args[0].Op == "id" {
		if _, shadow := env.vars[x.Args[0].Name]; !shadow {
			isSrc := false
			if env.useSrc && env.st != nil {
				_, isSrc = g.lookupSrc(env, x.Args[0].Name)
			}
			if !isSrc {
				if p := g.pkgByName(x.Args[0].Name, env); p != nil {
					if v, ok := g.pkgObject(p, x.Name, env); ok {
						return v, nil
					}
				}
			}
		}
	}
	if !env.noHeap {
		if p, err := g.place(x, env); err == nil {
			lv := g.loadPtr(env.st, p)
			g.arrayLenFact(lv)
			if !strings.Contains(lv.T, "!b") { // not under a quantifier
				g.preexisting(lv)
			} // a reference read from the entry heap denotes an object older than anything allocated since
			return lv, nil
		}
	}
	bv, err := g.eval(x.Args[0], env)
	if err != nil {
		return Val{}, err
	}
	if bv.Ty != nil {
		if stt, ok := types.Unalias(bv.Ty).Underlying().(*types.Struct); ok {
			// struct value: selector chain through embedded fields
			path, _, ok := findField(bv.Ty, x.Name)
			if !ok {
				return Val{}, fmt.Errorf("no field %s in %s", x.Name, bv.Ty)
			}
			cur := bv
			curT := bv.Ty
			_ = stt
			for _, fn := range path {
				cst := types.Unalias(curT).Underlying().(*types.Struct)
				key := g.structKey(curT)
				g.structSort(curT, cst)
				for i := 0; i < cst.NumFields(); i++ {
					if cst.Field(i).Name() == fn {
						ft := cst.Field(i).Type()
						cur = Val{T: fmt.Sprintf("(%s %s)", g.fieldSel(key, fn, i), cur.T), S: g.sortOf(ft), Ty: ft}
						g.arrayLenFact(cur)
						curT = ft
						break
					}
				}
			}
			return cur, nil
		}
	}
	return Val{}, fmt.Errorf("cannot select %s on %s (type %v)", x.Name, x.Args[0], bv.Ty)
}

func isLit(x *CExpr) bool { return x.Op == "int" || x.Op == "char" }

func (g *Gen) evalBin(x *CExpr, env *Env) (Val, error) {
	op := x.Name
	a, err := g.eval(x.Args[0], env)
	if err != nil {
		return Val{}, err
	}
	b, err := g.eval(x.Args[1], env)
	if err != nil {
		return Val{}, err
	}
	boolT := types.Typ[types.Bool]
	switch op {
	case "==>", "<==>", "&&", "||":
		if a.S != "Bool" || b.S != "Bool" {
			return Val{}, fmt.Errorf("%s needs boolean operands in %s", op, x)
		}
		switch op {
		case "==>":
			return Val{T: sImp(a.T, b.T), S: "Bool", Ty: boolT}, nil
		case "<==>":
			return Val{T: sEq(a.T, b.T), S: "Bool", Ty: boolT}, nil
		case "&&":
			return Val{T: sAnd(a.T, b.T), S: "Bool", Ty: boolT}, nil
		default:
			return Val{T: sOr(a.T, b.T), S: "Bool", Ty: boolT}, nil
		}
	}
	// literal coercion in bit-vector mode
	if strings.HasPrefix(a.S, "(_ BitVec") && b.S == "Int" {
		b = g.litToBV(b, a.S)
	} else if strings.HasPrefix(b.S, "(_ BitVec") && a.S == "Int" {
		a = g.litToBV(a, b.S)
	}
	if strings.HasPrefix(a.S, "(_ BitVec") && strings.HasPrefix(b.S, "(_ BitVec") && a.S != b.S {
		// widen the narrower
		if bvWidth(a.S) < bvWidth(b.S) {
			a = Val{T: g.bvResize(a, b.S), S: b.S, Ty: b.Ty}
		} else {
			b = Val{T: g.bvResize(b, a.S), S: a.S, Ty: a.Ty}
		}
	}
	switch op {
	case "==", "!=":
		if a.S != b.S {
			return Val{}, fmt.Errorf("sort mismatch in %s: %s vs %s", x, a.S, b.S)
		}
		var ty types.Type = a.Ty
		if ty == nil {
			ty = b.Ty
		}
		eq := sEq(a.T, b.T)
		isNilLit := func(e *CExpr) bool { return e != nil && e.Op == "id" && e.Name == "nil" }
		if a.S == "Str" && ty != nil && (isNilLit(x.Args[0]) || isNilLit(x.Args[1])) {
			// only a comparison the contract itself writes against nil has Go's (untracked) nil-ness semantics;
			// two byte-string values are compared as values
			eq = g.equalVals(a, b, ty)
		}
		if op == "!=" {
			eq = sNot(eq)
		}
		return Val{T: eq, S: "Bool", Ty: boolT}, nil
	}
	if strings.HasPrefix(a.S, "(_ BitVec") {
		uns := isUnsignedTy(a.Ty) && isUnsignedTy(b.Ty)
		sel := func(s, u string) string {
			if uns {
				return u
			}
			return s
		}
		bt := b.T
		var t string
		srt := a.S
		switch op {
		case "<":
			t, srt = fmt.Sprintf("(%s %s %s)", sel("bvslt", "bvult"), a.T, bt), "Bool"
		case "<=":
			t, srt = fmt.Sprintf("(%s %s %s)", sel("bvsle", "bvule"), a.T, bt), "Bool"
		case ">":
			t, srt = fmt.Sprintf("(%s %s %s)", sel("bvsgt", "bvugt"), a.T, bt), "Bool"
		case ">=":
			t, srt = fmt.Sprintf("(%s %s %s)", sel("bvsge", "bvuge"), a.T, bt), "Bool"
		case "+":
			t = fmt.Sprintf("(bvadd %s %s)", a.T, bt)
		case "-":
			t = fmt.Sprintf("(bvsub %s %s)", a.T, bt)
		case "*":
			t = fmt.Sprintf("(bvmul %s %s)", a.T, bt)
		case "/":
			t = fmt.Sprintf("(%s %s %s)", sel("bvsdiv", "bvudiv"), a.T, bt)
		case "%":
			t = fmt.Sprintf("(%s %s %s)", sel("bvsrem", "bvurem"), a.T, bt)
		case "<<":
			t = fmt.Sprintf("(bvshl %s %s)", a.T, bt)
		case ">>":
			t = fmt.Sprintf("(%s %s %s)", sel("bvashr", "bvlshr"), a.T, bt)
		case "&":
			t = fmt.Sprintf("(bvand %s %s)", a.T, bt)
		case "|":
			t = fmt.Sprintf("(bvor %s %s)", a.T, bt)
		case "^":
			t = fmt.Sprintf("(bvxor %s %s)", a.T, bt)
		default:
			return Val{}, fmt.Errorf("unsupported operator %s", op)
		}
		ty := a.Ty
		if srt == "Bool" {
			ty = boolT
		}
		return Val{T: t, S: srt, Ty: ty}, nil
	}
	if a.S == "Str" && op == "+" && b.S == "Str" {
		return Val{T: fmt.Sprintf("(cat %s %s)", a.T, b.T), S: "Str", Ty: a.Ty}, nil
	}
	if a.S != "Int" || b.S != "Int" {
		return Val{}, fmt.Errorf("operator %s on sorts %s, %s in %s", op, a.S, b.S, x)
	}
	ty := a.Ty
	if ty == nil || ty == types.Typ[types.UntypedInt] {
		ty = b.Ty
	}
	switch op {
	case "<", "<=", ">", ">=":
		return Val{T: fmt.Sprintf("(%s %s %s)", op, a.T, b.T), S: "Bool", Ty: boolT}, nil
	case "+", "-", "*":
		return Val{T: fmt.Sprintf("(%s %s %s)", op, a.T, b.T), S: "Int", Ty: ty}, nil
	case "/":
		return Val{T: fmt.Sprintf("(godiv %s %s)", a.T, b.T), S: "Int", Ty: ty}, nil
	case "%":
		return Val{T: fmt.Sprintf("(gomod %s %s)", a.T, b.T), S: "Int", Ty: ty}, nil
	case "<<":
		if isLit(x.Args[1]) {
			k, _ := strconv.ParseInt(x.Args[1].Name, 0, 64)
			if k >= 0 && k < 63 {
				return Val{T: fmt.Sprintf("(* %s %d)", a.T, int64(1)<<uint(k)), S: "Int", Ty: ty}, nil
			}
		}
		return Val{T: fmt.Sprintf("(* %s (pow2 %s))", a.T, b.T), S: "Int", Ty: ty}, nil
	case ">>":
		if isLit(x.Args[1]) {
			k, _ := strconv.ParseInt(x.Args[1].Name, 0, 64)
			if k >= 0 && k < 63 {
				return Val{T: fmt.Sprintf("(div %s %d)", a.T, int64(1)<<uint(k)), S: "Int", Ty: ty}, nil
			}
		}
		return Val{T: fmt.Sprintf("(div %s (pow2 %s))", a.T, b.T), S: "Int", Ty: ty}, nil
	}
	return Val{}, fmt.Errorf("unsupported operator %s", op)
}

func isUnsignedTy(t types.Type) bool { return t != nil && isUnsigned(t) }

func (g *Gen) litToBV(v Val, srt string) Val {
	// v.T is a decimal literal or (- n)
	s := v.T
	neg := false
	if strings.HasPrefix(s, "(- ") {
		neg = true
		s = strings.TrimSuffix(strings.TrimPrefix(s, "(- "), ")")
	}
	if n, err := strconv.ParseUint(s, 10, 64); err == nil {
		i := int64(n)
		if neg {
			i = -i
		}
		return Val{T: g.intLit(i, srt), S: srt, Ty: types.Typ[types.Int64]}
	}
	w := bvWidth(srt)
	return Val{T: fmt.Sprintf("((_ int2bv %d) %s)", w, v.T), S: srt, Ty: types.Typ[types.Int64]}
}

func (g *Gen) evalCall(x *CExpr, env *Env) (Val, error) {
	name := x.Name
	var args []Val
	evalArgs := func() error {
		for _, a := range x.Args {
			v, err := g.eval(a, env)
			if err != nil {
				return err
			}
			args = append(args, v)
		}
		return nil
	}
	switch name {
	case "backing":
		p, err := g.place(x, env)
		if err != nil {
			return Val{}, err
		}
		return g.loadPtr(env.st, p), nil
	case "len":
		if err := evalArgs(); err != nil {
			return Val{}, err
		}
		if len(args) != 1 {
			return Val{}, fmt.Errorf("len takes one argument")
		}
		return g.lenOf(args[0], env.st)
	case "has": // has(m, k): key present in map
		if err := evalArgs(); err != nil {
			return Val{}, err
		}
		if len(args) == 2 && args[0].Ty != nil {
			if mt, ok := types.Unalias(args[0].Ty).Underlying().(*types.Map); ok {
				dn, ds, _, _ := g.mapHeaps(mt)
				dh := g.heapTerm(env.st, dn, ds)
				return Val{T: fmt.Sprintf("(select (select %s %s) %s)", dh, args[0].T, args[1].T), S: "Bool", Ty: types.Typ[types.Bool]}, nil
			}
		}
		return Val{}, fmt.Errorf("has(m,k) needs a map")
	case "upd": // upd(m, k, v): functional update of a ghost map/set
		if err := evalArgs(); err != nil {
			return Val{}, err
		}
		if len(args) == 3 && strings.HasPrefix(args[0].S, "(Array ") {
			parts := splitArraySort(args[0].S)
			if parts != nil && parts[0] == args[1].S && parts[1] == args[2].S {
				return Val{T: fmt.Sprintf("(store %s %s %s)", args[0].T, args[1].T, args[2].T), S: args[0].S}, nil
			}
		}
		return Val{}, fmt.Errorf("upd(m, k, v) sort error")
	case "emptyset":
		if len(x.Args) == 1 && x.Args[0].Op == "str" {
			srt, _, err := g.sortOfTypeName(x.Args[0].Name, env.pkg)
			if err == nil && strings.HasPrefix(srt, "(Array ") {
				return Val{T: fmt.Sprintf("((as const %s) false)", srt), S: srt}, nil
			}
		}
		return Val{}, fmt.Errorf("emptyset(\"set[string]\")")
	case "byte1", "zeros":
		if err := evalArgs(); err != nil {
			return Val{}, err
		}
		if len(args) == 1 && args[0].S == "Int" {
			return Val{T: fmt.Sprintf("(%s %s)", name, args[0].T), S: "Str", Ty: types.NewSlice(types.Typ[types.Uint8])}, nil
		}
		return Val{}, fmt.Errorf("%s(int)", name)
	case "supd":
		if err := evalArgs(); err != nil {
			return Val{}, err
		}
		if len(args) == 3 && args[0].S == "Str" && args[1].S == "Int" && args[2].S == "Int" {
			return Val{T: fmt.Sprintf("(supd %s %s %s)", args[0].T, args[1].T, args[2].T), S: "Str", Ty: args[0].Ty}, nil
		}
		return Val{}, fmt.Errorf("supd(bytes, i, v)")
	case "isnilb":
		if err := evalArgs(); err != nil {
			return Val{}, err
		}
		if len(args) == 1 && args[0].S == "Str" {
			// nil-ness of empty byte slices is not tracked: isnilb(x) means "x has no bytes"
			return Val{T: fmt.Sprintf("(= (slen %s) 0)", args[0].T), S: "Bool", Ty: types.Typ[types.Bool]}, nil
		}
		return Val{}, fmt.Errorf("isnilb needs a byte slice")
	case "closed":
		if err := evalArgs(); err != nil {
			return Val{}, err
		}
		h := g.heapTerm(env.st, "closed$", "(Array Int Bool)")
		return Val{T: fmt.Sprintf("(select %s %s)", h, args[0].T), S: "Bool", Ty: types.Typ[types.Bool]}, nil
	case "typeof":
		if err := evalArgs(); err != nil {
			return Val{}, err
		}
		return Val{T: fmt.Sprintf("(dyntype$ %s)", args[0].T), S: "Int"}, nil
	case "typeid": // typeid("pkg.Type") or typeid("*pkg.Type")
		if len(x.Args) == 1 && x.Args[0].Op == "str" {
			tn := x.Args[0].Name
			ptr := strings.HasPrefix(tn, "*")
			t := g.lookupType(strings.TrimPrefix(tn, "*"), env.pkg)
			if t == nil {
				return Val{}, fmt.Errorf("unknown type %s", tn)
			}
			if ptr {
				t = types.NewPointer(t)
			}
			_, _, tag := g.boxFn(t)
			return Val{T: fmt.Sprint(tag), S: "Int"}, nil
		}
		return Val{}, fmt.Errorf("typeid needs a string literal")
	case "cast": // cast(x, "*pkg.Type"): the dynamic value of interface x viewed as that type
		if len(x.Args) == 2 && x.Args[1].Op == "str" {
			v, err := g.eval(x.Args[0], env)
			if err != nil {
				return Val{}, err
			}
			tn := x.Args[1].Name
			ptr := strings.HasPrefix(tn, "*")
			t := g.lookupType(strings.TrimPrefix(tn, "*"), env.pkg)
			if t == nil {
				return Val{}, fmt.Errorf("unknown type %s", tn)
			}
			if ptr {
				t = types.NewPointer(t)
			}
			_, un, _ := g.boxFn(t)
			return Val{T: fmt.Sprintf("(%s %s)", un, v.T), S: g.sortOf(t), Ty: t}, nil
		}
		return Val{}, fmt.Errorf("cast(x, \"type\")")
	case "errAs": // errAs(err, "*pkg.Type"): errors.As would find that type in err's chain
		if len(x.Args) == 2 && x.Args[1].Op == "str" {
			v, err := g.eval(x.Args[0], env)
			if err != nil {
				return Val{}, err
			}
			tn := x.Args[1].Name
			ptr := strings.HasPrefix(tn, "*")
			t := g.lookupType(strings.TrimPrefix(tn, "*"), env.pkg)
			if t == nil {
				return Val{}, fmt.Errorf("unknown type %s", tn)
			}
			if ptr {
				t = types.NewPointer(t)
			}
			g.vc.decl("p$errAs", "(declare-fun p$errAs (Int Int) Bool)")
			return Val{T: fmt.Sprintf("(p$errAs %s %d)", v.T, g.typeTag(t)), S: "Bool", Ty: types.Typ[types.Bool]}, nil
		}
		return Val{}, fmt.Errorf("errAs(err, \"type\")")
	case "iface": // iface(x): x converted to an interface value (as the compiler does implicitly)
		if err := evalArgs(); err != nil {
			return Val{}, err
		}
		if len(args) == 1 && args[0].Ty != nil {
			if _, isIface := types.Unalias(args[0].Ty).Underlying().(*types.Interface); isIface {
				return args[0], nil
			}
			return g.makeInterface(args[0], args[0].Ty, types.NewInterfaceType(nil, nil)), nil
		}
		return Val{}, fmt.Errorf("iface(x) needs a typed value")
	case "Is":
		if err := evalArgs(); err != nil {
			return Val{}, err
		}
		g.declIs()
		if len(args) == 2 {
			return Val{T: fmt.Sprintf("(p$Is %s %s)", args[0].T, args[1].T), S: "Bool", Ty: types.Typ[types.Bool]}, nil
		}
		return Val{}, fmt.Errorf("Is(err, target)")
	case "held":
		if err := evalArgs(); err != nil {
			return Val{}, err
		}
		if len(args) == 1 {
			return Val{T: sNot(sEq(g.heldTerm(env.st, args[0].T), "0")), S: "Bool", Ty: types.Typ[types.Bool]}, nil
		}
		return Val{}, fmt.Errorf("held(&mu)")
	case "fresh":
		if err := evalArgs(); err != nil {
			return Val{}, err
		}
		// a freshly allocated object: allocated after everything that existed so far (allocation clock)
		if g.vc.clock == "" {
			g.vc.clock = "0"
		}
		t := fmt.Sprintf("(and (fresh$ %s) (> (allocid$ %s) %s))", args[0].T, args[0].T, g.vc.clock)
		if g.assumingFresh && !strings.Contains(args[0].T, "!b") && !strings.ContainsAny(args[0].T, " ()") {
			if g.vc.allocSet == nil {
				g.vc.allocSet = map[string]bool{}
			}
			g.vc.allocSet[args[0].T] = true // the result of an assumed constructor is a new object
		}
		if !strings.Contains(args[0].T, "!b") {
			e := g.vc.freshConst("epoch", "Int")
			g.vc.lines = append(g.vc.lines, fmt.Sprintf("(assert (and (> %s %s) (> %s (allocid$ %s))))", e, g.vc.clock, e, args[0].T))
			g.vc.clock = e
		}
		return Val{T: t, S: "Bool"}, nil
	case "ite":
		if err := evalArgs(); err != nil {
			return Val{}, err
		}
		if len(args) != 3 || args[0].S != "Bool" || args[1].S != args[2].S {
			return Val{}, fmt.Errorf("ite(c, a, b) sort error")
		}
		return Val{T: sIte(args[0].T, args[1].T, args[2].T), S: args[1].S, Ty: args[1].Ty}, nil
	case "min", "max":
		if err := evalArgs(); err != nil {
			return Val{}, err
		}
		if len(args) == 2 && args[0].S == "Int" && args[1].S == "Int" {
			op := "<="
			if name == "max" {
				op = ">="
			}
			return Val{T: fmt.Sprintf("(ite (%s %s %s) %s %s)", op, args[0].T, args[1].T, args[0].T, args[1].T), S: "Int", Ty: args[0].Ty}, nil
		}
		return Val{}, fmt.Errorf("%s needs two ints", name)
	case "string", "bytes":
		if err := evalArgs(); err != nil {
			return Val{}, err
		}
		if len(args) == 1 && args[0].S == "Str" {
			v := args[0]
			if name == "bytes" {
				v.Ty = types.NewSlice(types.Typ[types.Uint8])
			} else {
				v.Ty = types.Typ[types.String]
			}
			return v, nil
		}
	case "int64", "int", "uint64":
		if err := evalArgs(); err != nil {
			return Val{}, err
		}
		if len(args) == 1 && (args[0].S == "Int") {
			return args[0], nil
		}
		if len(args) == 1 && strings.HasPrefix(args[0].S, "(_ BitVec") {
			return Val{T: g.bvResize(args[0], "(_ BitVec 64)"), S: "(_ BitVec 64)", Ty: types.Typ[types.Int64]}, nil
		}
	}
	if pf, ok := g.cs.Pures[name]; ok {
		if err := evalArgs(); err != nil {
			return Val{}, err
		}
		return g.applyPure(pf, args, env)
	}
	return Val{}, fmt.Errorf("unknown function %s in contract expression", name)
}

func (g *Gen) lenOf(v Val, st *State) (Val, error) {
	it := types.Typ[types.Int]
	switch v.S {
	case "Str":
		if g.bv {
			return Val{T: fmt.Sprintf("((_ int2bv 64) (slen %s))", v.T), S: "(_ BitVec 64)", Ty: it}, nil
		}
		return Val{T: fmt.Sprintf("(slen %s)", v.T), S: "Int", Ty: it}, nil
	case "Slice":
		return Val{T: fmt.Sprintf("(slenS %s)", v.T), S: "Int", Ty: it}, nil
	case "Int":
		if v.Ty != nil {
			if mt, ok := types.Unalias(v.Ty).Underlying().(*types.Map); ok && st != nil {
				return Val{T: fmt.Sprintf("(maplen$ %s)", g.mapLenKey(st, mt, v.T)), S: "Int", Ty: it}, nil
			}
		}
	}
	return Val{}, fmt.Errorf("len of sort %s", v.S)
}

// applyPure declares (once) and applies a spec function.
func (g *Gen) applyPure(pf *PureFunc, args []Val, env *Env) (Val, error) {
	if len(args) != len(pf.Params) {
		return Val{}, fmt.Errorf("%s expects %d arguments", pf.Name, len(pf.Params))
	}
	rs, rty, err := g.sortOfTypeName(pf.Result, env.pkg)
	if err != nil {
		return Val{}, fmt.Errorf("pure func %s: %v", pf.Name, err)
	}
	if err := g.declarePure(pf, env.pkg); err != nil {
		return Val{}, err
	}
	var ts []string
	for i, a := range args {
		ps, _, _ := g.sortOfTypeName(pf.PTypes[i], env.pkg)
		if a.S != ps {
			if strings.HasPrefix(a.S, "(_ BitVec") && ps == "Int" {
				a = Val{T: g.toInt(a), S: "Int"}
			} else {
				return Val{}, fmt.Errorf("argument %d of %s has sort %s, want %s", i, pf.Name, a.S, ps)
			}
		}
		ts = append(ts, a.T)
	}
	if len(ts) == 0 {
		return Val{T: "p$" + pf.Name, S: rs, Ty: rty}, nil
	}
	return Val{T: fmt.Sprintf("(p$%s %s)", pf.Name, strings.Join(ts, " ")), S: rs, Ty: rty}, nil
}

func (g *Gen) declarePure(pf *PureFunc, pkg *types.Package) error {
	name := "p$" + pf.Name
	if g.vc.declSet[name] {
		return nil
	}
	rs, _, err := g.sortOfTypeName(pf.Result, pkg)
	if err != nil {
		return err
	}
	var ps []string
	vars := map[string]Val{}
	var binders []string
	for i, p := range pf.Params {
		s, ty, err := g.sortOfTypeName(pf.PTypes[i], pkg)
		if err != nil {
			return fmt.Errorf("pure func %s: %v", pf.Name, err)
		}
		ps = append(ps, s)
		bn := "a$" + sanitize(p)
		vars[p] = Val{T: bn, S: s, Ty: ty}
		binders = append(binders, fmt.Sprintf("(%s %s)", bn, s))
	}
	if pf.Body == nil {
		g.vc.decl(name, fmt.Sprintf("(declare-fun %s (%s) %s)", name, strings.Join(ps, " "), rs))
		return nil
	}
	// mark declared first to catch recursion (not supported: treated as error)
	g.vc.declSet[name] = true
	benv := &Env{g: g, vars: vars, pkg: pkg, noHeap: true}
	saveBV := g.bv
	g.bv = false
	body, err := g.eval(pf.Body, benv)
	g.bv = saveBV
	if err != nil {
		delete(g.vc.declSet, name)
		return fmt.Errorf("pure func %s: %v", pf.Name, err)
	}
	if body.S != rs {
		delete(g.vc.declSet, name)
		return fmt.Errorf("pure func %s: body has sort %s, declared %s", pf.Name, body.S, rs)
	}
	g.vc.decls = append(g.vc.decls, fmt.Sprintf("(define-fun %s (%s) %s %s)", name, strings.Join(binders, " "), rs, body.T))
	return nil
}

var reNth = regexp.MustCompile(`^(.+)__([0-9]+)$`)

// lookupSrc resolves a source-variable name at the environment's program point.
// `x__2` names the second variable called x declared in the function (declaration order).
func (g *Gen) lookupSrc(env *Env, name string) (types.Object, bool) {
	if env.st == nil || env.fr == nil {
		return nil, false
	}
	fr := env.fr
	fr.collectObjs()
	if m := reNth.FindStringSubmatch(name); m != nil {
		k := 0
		fmt.Sscan(m[2], &k)
		n := 0
		for _, o := range fr.objs {
			if o.Name() == m[1] {
				n++
				if n == k {
					_, ok := env.st.src[o]
					return o, ok
				}
			}
		}
		return nil, false
	}
	if env.pos.IsValid() {
		if p := pkgOfFn(fr.fn); p != nil {
			if inner := p.Scope().Innermost(env.pos); inner != nil {
				if _, o := inner.LookupParent(name, env.pos); o != nil {
					if _, ok := env.st.src[o]; ok {
						return o, true
					}
					if _, isVar := o.(*types.Var); isVar && o.Parent() != p.Scope() {
						if os.Getenv("GOVC_DEBUG") != "" {
							fmt.Fprintf(os.Stderr, "lookupSrc %s at %v: object %v at %v has no value on this path (src has %d)\n", name, g.prog.Fset.Position(env.pos), o, g.prog.Fset.Position(o.Pos()), len(env.st.src))
						}
						return nil, false // in scope but no value known on this path
					}
				}
			}
		}
	}
	// fallback: unique variable of that name with a known value
	var cand types.Object
	for _, o := range fr.objs {
		if o.Name() == name {
			if _, ok := env.st.src[o]; ok {
				if cand != nil {
					return nil, false
				}
				cand = o
			}
		}
	}
	return cand, cand != nil
}

var _ = token.NoPos

func (g *Gen) ghostField(t types.Type, name string) ([]string, types.Type, bool) {
	key := g.structKey(t)
	for _, gf := range g.cs.GFields {
		if sanitize(gf.Struct) == key && gf.Name == name {
			srt, ty, err := g.sortOfTypeName(gf.Type, nil)
			if err != nil {
				return nil, nil, false
			}
			return []string{name}, ghostType{srt, ty}, true
		}
	}
	return nil, nil, false
}

// splitArraySort parses "(Array K V)" into K and V.
func splitArraySort(s string) []string {
	if !strings.HasPrefix(s, "(Array ") || !strings.HasSuffix(s, ")") {
		return nil
	}
	body := s[len("(Array ") : len(s)-1]
	d := 0
	for i := 0; i < len(body); i++ {
		switch body[i] {
		case '(':
			d++
		case ')':
			d--
		case ' ':
			if d == 0 {
				return []string{body[:i], body[i+1:]}
			}
		}
	}
	return nil
}

func (g *Gen) findByPath(path string) *types.Package {
	seen := map[*types.Package]bool{}
	var found *types.Package
	var visit func(p *types.Package, depth int)
	visit = func(p *types.Package, depth int) {
		if found != nil || seen[p] || depth > 6 {
			return
		}
		seen[p] = true
		if p.Path() == path {
			found = p
			return
		}
		for _, imp := range p.Imports() {
			visit(imp, depth+1)
		}
	}
	for _, sp := range g.pkgs {
		visit(sp.Pkg, 0)
	}
	return found
}
