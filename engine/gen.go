package main

import (
	"fmt"
	"go/token"
	"go/types"
	"sort"
	"strconv"
	"strings"

	"golang.org/x/tools/go/ssa"
)

func strconvUnquote(s string) (string, error) { return strconv.Unquote(s) }

// ---------------------------------------------------------------------------
// Values, pointers, state

type Val struct {
	T     string     // SMT term
	S     string     // SMT sort
	Ty    types.Type // Go type (nil for ghost values)
	Ptr   *Ptr       // statically resolved pointer
	Clo   *Closure   // statically known closure
	Tup   []Val      // tuple components
	Elems []Val      // statically known elements (varargs arrays/slices)
}

const (
	pCell = iota
	pField
	pElem    // element of a heap array  HA$sort[Arr][Idx]
	pElemStr // element of a byte-string value (read only)
	pGlobal
)

type Ptr struct {
	Kind   int
	Cell   string     // cell id (pCell, pGlobal)
	Base   string     // object ref term (pField)
	Struct string     // struct heap key (pField)
	Path   []string   // field path inside the struct (pField)
	Ty     types.Type // pointee type
	Arr    string     // pElem
	Idx    string     // pElem, pElemStr
	Src    *Val       // pElemStr: the byte string
	Buf    bool       // pCell: the cell holds the contents of a byte buffer created by make([]byte, n)
	Origin *Ptr       // pElemStr: location holding the byte array (for stores)
	Slots  *[]Val     // statically tracked elements for varargs arrays
	SlotIx int
}

type Closure struct {
	Fn       *ssa.Function
	Bindings []Val
}

type deferEntry struct {
	guard string
	call  *ssa.Defer
	fr    *Frame
}

type State struct {
	heaps   map[string]string     // heap name -> current term
	hsort   map[string]string     // heap name -> sort (shared, never diverges)
	cells   map[string]Val        // cell id -> current value
	src     map[types.Object]Val  // source variable -> value (or pointer for addressable vars)
	srcAddr map[types.Object]bool // whether src[obj] is the address of the variable
	escaped map[string]bool       // cells whose address escaped
}

func NewState() *State {
	return &State{heaps: map[string]string{}, hsort: map[string]string{}, cells: map[string]Val{}, src: map[types.Object]Val{}, srcAddr: map[types.Object]bool{}, escaped: map[string]bool{}}
}

func (s *State) Clone() *State {
	n := &State{heaps: make(map[string]string, len(s.heaps)), hsort: s.hsort, cells: make(map[string]Val, len(s.cells)),
		src: make(map[types.Object]Val, len(s.src)), srcAddr: make(map[types.Object]bool, len(s.srcAddr)), escaped: make(map[string]bool, len(s.escaped))}
	for k, v := range s.heaps {
		n.heaps[k] = v
	}
	for k, v := range s.cells {
		n.cells[k] = v
	}
	for k, v := range s.src {
		n.src[k] = v
	}
	for k, v := range s.srcAddr {
		n.srcAddr[k] = v
	}
	for k, v := range s.escaped {
		n.escaped[k] = v
	}
	return n
}

// ---------------------------------------------------------------------------
// Obligations

type Obligation struct {
	Name    string
	Func    string
	Kind    string // ensures, requires, invariant, callreq, nopanic, lemma, census, cover, canary
	Props   []string
	Prefix  int // number of vc.lines visible
	Guard   string
	Goal    string
	Src     string
	Pos     string
	Expect  string // "unsat" (normal), "sat" (cover / canary: must NOT be unsat)
	Status  string // discharged, refuted, undischarged, vacuous, ok
	Solver  string
	Ms      int64
	Model   string
	Output  string
	Cached  bool    // answered from the proof cache (identical query text answered earlier)
	Clause  *Clause // the contract clause behind an ensures/returns obligation (used by the replay driver)
	NoSlice bool    // include the whole theory (consistency check)
	Static  bool    // decided at generation time (census)
	Aux     string
}

type VC struct {
	fn       *ssa.Function // function under contract (nil for lemmas / theory)
	topKey   string
	params   []replayParam // its parameters' symbolic entry values
	decls    []string
	declSet  map[string]bool
	lines    []string
	obls     []*Obligation
	fresh    int
	allocs   []string
	sorts    []string
	clock    string // term denoting the allocation time of the most recent allocation / loop epoch
	sidx     *sliceIndex
	allocSet map[string]bool
	notes    []string // unmodelled constructs, havocked calls, inlined functions
	noteSet  map[string]bool
}

func (vc *VC) note(kind, s string) {
	k := kind + ": " + s
	if vc.noteSet == nil {
		vc.noteSet = map[string]bool{}
	}
	if !vc.noteSet[k] {
		vc.noteSet[k] = true
		vc.notes = append(vc.notes, k)
	}
}

func (vc *VC) decl(name, d string) {
	if vc.declSet == nil {
		vc.declSet = map[string]bool{}
	}
	if vc.declSet[name] {
		return
	}
	vc.declSet[name] = true
	vc.decls = append(vc.decls, d)
}

func (vc *VC) freshName(prefix string) string {
	vc.fresh++
	return fmt.Sprintf("%s!%d", sanitize(prefix), vc.fresh)
}

// freshConst declares a new constant of the given sort.
func (vc *VC) freshConst(prefix, srt string) string {
	n := vc.freshName(prefix)
	vc.decls = append(vc.decls, fmt.Sprintf("(declare-const %s %s)", n, srt))
	return n
}

// define introduces a named abbreviation for a term (keeps queries small).
func (vc *VC) define(prefix, srt, term string) string {
	if len(term) < 24 && !strings.Contains(term, " ") {
		return term
	}
	n := vc.freshName(prefix)
	vc.lines = append(vc.lines, fmt.Sprintf("(define-fun %s () %s %s)", n, srt, term))
	return n
}

func (vc *VC) assume(guard, fact string) {
	if fact == "true" {
		return
	}
	if guard == "" || guard == "true" {
		vc.lines = append(vc.lines, fmt.Sprintf("(assert %s)", fact))
	} else {
		vc.lines = append(vc.lines, fmt.Sprintf("(assert (=> %s %s))", guard, fact))
	}
}

func sanitize(s string) string {
	var b strings.Builder
	for _, r := range s {
		switch {
		case r >= 'a' && r <= 'z', r >= 'A' && r <= 'Z', r >= '0' && r <= '9', r == '_', r == '.', r == '$':
			b.WriteRune(r)
		default:
			b.WriteByte('_')
		}
	}
	return b.String()
}

// ---------------------------------------------------------------------------
// Generator

type Gen struct {
	prog             *ssa.Program
	pkgs             map[string]*ssa.Package // by package path
	byName           map[string]*ssa.Package // by package name (repo packages win)
	repoPfx          string
	cs               *Contracts
	vc               *VC
	fset             *token.FileSet
	bv               bool                     // current function in bit-vector mode
	structs          map[string]*types.Struct // declared datatypes
	strLits          map[string]string
	tags             map[string]int
	tagTypes         []types.Type
	maxInline        int
	curTop           string
	funcByKey        map[string]*ssa.Function
	methByKey        map[string]*types.Func
	frameSeq         int
	pureDeclared     bool
	timeoutS         int
	dry              int
	ws               *writeSet
	renames          map[string]map[string]string // function key -> local variable renames with respect to the committed HEAD (rename.go)
	assumingFresh    bool                         // evaluating the ensures of an assumed contract: fresh(x) there introduces x as a new allocation
	pendingCalleeWS  *writeSet                    // write set of the contracted callee being applied (dry run), havocked before its ensures are assumed
	seenCall         map[*Clause]bool
	siteOrds         map[*Clause]map[ssa.Instruction]int
	inlineExt        map[string]bool
	impByName        map[string]*types.Package
	lockObls         bool
	keyPaths         map[string]string
	keyAlias         map[*ssa.Function]string
	heapTy           map[string]types.Type // Go type of the elements of a field heap
	coveredSite      map[ssa.Instruction]bool
	inInit           bool
	replaysDone      int
	panicPre         string // `panics-unless` condition of the nopanic function being verified (entry state); nopanic goals are proved under it
	unstableGlobals  map[string]bool
	unstablePointees map[string]bool
}

const intSortName = "Int"

func (g *Gen) isRepoPkg(p *types.Package) bool {
	return p != nil && (p.Path() == g.repoPfx || strings.HasPrefix(p.Path(), g.repoPfx+"/"))
}

// canonical key of a function object: pkgname.Func, pkgname.(*T).M, pkgname.T.M
// pkgName is the package name used in keys; commands are named after their directory.
func pkgName(p *types.Package) string {
	if p == nil {
		return ""
	}
	if p.Name() == "main" {
		if i := strings.LastIndex(p.Path(), "/"); i >= 0 {
			base := p.Path()[i+1:]
			// cmd/<x> inside module .../<x>: avoid clashing with the module's root package name
			if j := strings.Index(p.Path(), "/cmd/"); j > 0 && strings.HasSuffix(p.Path()[:j], "/"+base) {
				return base + "-cmd"
			}
			return base
		}
		return p.Path()
	}
	return p.Name()
}

func keyOfFunc(f *types.Func) string {
	sig := f.Type().(*types.Signature)
	pk := pkgName(f.Pkg())
	if r := sig.Recv(); r != nil {
		t := r.Type()
		ptr := false
		if p, ok := t.(*types.Pointer); ok {
			t = p.Elem()
			ptr = true
		}
		tn := typeShortName(t)
		if ptr {
			return fmt.Sprintf("%s.(*%s).%s", pk, tn, f.Name())
		}
		return fmt.Sprintf("%s.%s.%s", pk, tn, f.Name())
	}
	return pk + "." + f.Name()
}

func typeShortName(t types.Type) string {
	switch t := types.Unalias(t).(type) {
	case *types.Named:
		return t.Obj().Name()
	case *types.TypeParam:
		return t.Obj().Name()
	}
	return sanitize(t.String())
}

func keyOfSSAFunc(f *ssa.Function) string {
	if f == nil {
		return "?"
	}
	if f.Parent() != nil {
		// anonymous function: parentkey$N
		name := f.Name()
		pk := keyOfSSAFunc(f.Parent())
		if i := strings.LastIndex(name, "$"); i >= 0 {
			return pk + name[i:]
		}
		return pk + "$" + name
	}
	if o, ok := f.Object().(*types.Func); ok && o != nil {
		return keyOfFunc(o)
	}
	if f.Origin() != nil {
		return keyOfSSAFunc(f.Origin())
	}
	// synthetic (wrappers, bound methods ...)
	pk := ""
	if f.Pkg != nil {
		pk = pkgName(f.Pkg.Pkg) + "."
	}
	return pk + f.Name()
}

// ---------------------------------------------------------------------------
// Sorts

func (g *Gen) isByteSeq(t types.Type) bool {
	switch u := t.Underlying().(type) {
	case *types.Slice:
		return isByte(u.Elem())
	case *types.Array:
		return isByte(u.Elem())
	case *types.Basic:
		return u.Info()&types.IsString != 0
	}
	return false
}

func isByte(t types.Type) bool {
	b, ok := t.Underlying().(*types.Basic)
	return ok && (b.Kind() == types.Uint8)
}

func (g *Gen) intSort(b *types.Basic) string {
	if !g.bv {
		return "Int"
	}
	return fmt.Sprintf("(_ BitVec %d)", intWidth(b))
}

func intWidth(b *types.Basic) int {
	switch b.Kind() {
	case types.Int8, types.Uint8:
		return 8
	case types.Int16, types.Uint16:
		return 16
	case types.Int32, types.Uint32:
		return 32
	}
	return 64
}

func isUnsigned(t types.Type) bool {
	b, ok := t.Underlying().(*types.Basic)
	return ok && b.Info()&types.IsUnsigned != 0
}

func (g *Gen) sortOf(t types.Type) string {
	if t == nil {
		return "Int"
	}
	if gt, ok := t.(ghostType); ok {
		return gt.srt
	}
	switch u := types.Unalias(t).Underlying().(type) {
	case *types.Basic:
		switch {
		case u.Info()&types.IsBoolean != 0:
			return "Bool"
		case u.Info()&types.IsInteger != 0:
			return g.intSort(u)
		case u.Info()&types.IsString != 0:
			return "Str"
		case u.Info()&types.IsFloat != 0:
			return "Real"
		}
		return "Int"
	case *types.Slice:
		if isByte(u.Elem()) {
			return "Str"
		}
		return "Slice"
	case *types.Array:
		if isByte(u.Elem()) {
			return "Str"
		}
		return "Int" // reference into the array heap
	case *types.Struct:
		return g.structSort(t, u)
	case *types.Tuple:
		return "Tuple"
	}
	return "Int" // pointers, maps, chans, funcs, interfaces, type params
}

func (g *Gen) structKey(t types.Type) string {
	t = types.Unalias(t)
	if n, ok := t.(*types.Named); ok {
		pk, path := "", ""
		if n.Obj().Pkg() != nil {
			pk = n.Obj().Pkg().Name() + "."
			path = n.Obj().Pkg().Path()
		}
		s := pk + n.Obj().Name()
		if ta := n.TypeArgs(); ta != nil && ta.Len() > 0 {
			s += "_" + sanitize(ta.At(0).String())
		}
		s = sanitize(s)
		// two packages with the same name (sync and internal/sync): disambiguate by path
		if g.keyPaths == nil {
			g.keyPaths = map[string]string{}
		}
		if prev, ok := g.keyPaths[s]; ok && prev != path {
			return sanitize(path + "." + n.Obj().Name())
		} else if !ok {
			g.keyPaths[s] = path
		}
		return s
	}
	return "anon_" + sanitize(t.String())
}

func (g *Gen) structSort(t types.Type, st *types.Struct) string {
	key := g.structKey(t)
	srt := "S$" + key
	if _, ok := g.structs[key]; ok {
		return srt
	}
	g.structs[key] = st
	// make sure field sorts exist first
	var fields []string
	for i := 0; i < st.NumFields(); i++ {
		f := st.Field(i)
		fields = append(fields, fmt.Sprintf("(%s %s)", g.fieldSel(key, f.Name(), i), g.sortOf(f.Type())))
	}
	if len(fields) == 0 {
		g.vc.decl(srt, fmt.Sprintf("(declare-datatypes ((%s 0)) (((mk$%s))))", srt, key))
	} else {
		g.vc.decl(srt, fmt.Sprintf("(declare-datatypes ((%s 0)) (((mk$%s %s))))", srt, key, strings.Join(fields, " ")))
	}
	return srt
}

func (g *Gen) fieldSel(key, fname string, i int) string {
	if fname == "_" {
		fname = fmt.Sprintf("blank%d", i)
	}
	return "f$" + key + "$" + fname
}

// zero value term of a Go type
func (g *Gen) zero(t types.Type) string {
	srt := g.sortOf(t)
	switch u := types.Unalias(t).Underlying().(type) {
	case *types.Array:
		if isByte(u.Elem()) {
			return fmt.Sprintf("(zeros %d)", u.Len())
		}
	case *types.Struct:
		key := g.structKey(t)
		if u.NumFields() == 0 {
			return "mk$" + key
		}
		var fs []string
		for i := 0; i < u.NumFields(); i++ {
			fs = append(fs, g.zero(u.Field(i).Type()))
		}
		return fmt.Sprintf("(mk$%s %s)", key, strings.Join(fs, " "))
	}
	return g.zeroOfSort(srt)
}

func (g *Gen) zeroOfSort(srt string) string {
	switch srt {
	case "Int":
		return "0"
	case "Bool":
		return "false"
	case "Str":
		return "empty$"
	case "Slice":
		return "nilslice$"
	case "Real":
		return "0.0"
	}
	if strings.HasPrefix(srt, "(_ BitVec ") {
		w, _ := strconv.Atoi(strings.TrimSuffix(strings.TrimPrefix(srt, "(_ BitVec "), ")"))
		return fmt.Sprintf("(_ bv0 %d)", w)
	}
	// unknown/ghost sort: a fixed constant
	n := "zero$" + sanitize(srt)
	g.vc.decl(n, fmt.Sprintf("(declare-const %s %s)", n, srt))
	return n
}

// ---------------------------------------------------------------------------
// Literals

func (g *Gen) strLit(s string) string {
	if s == "" {
		return "empty$"
	}
	if n, ok := g.strLits[s]; ok {
		return n
	}
	n := fmt.Sprintf("str$%d", len(g.strLits))
	g.strLits[s] = n
	g.vc.decl(n, fmt.Sprintf("(declare-const %s Str) ; %q", n, truncate(s, 60)))
	// length and bytes (bytes only for short literals)
	g.vc.decls = append(g.vc.decls, fmt.Sprintf("(assert (= (slen %s) %d))", n, len(s)))
	if len(s) <= 16 {
		for i := 0; i < len(s); i++ {
			g.vc.decls = append(g.vc.decls, fmt.Sprintf("(assert (= (at %s %d) %d))", n, i, s[i]))
		}
	}
	g.vc.decls = append(g.vc.decls, fmt.Sprintf("(assert (= (litid %s) %d))", n, len(g.strLits)))
	return n
}

func truncate(s string, n int) string {
	s = strings.ReplaceAll(s, "\n", "\\n")
	if len(s) > n {
		return s[:n] + "..."
	}
	return s
}

func (g *Gen) intLit(v int64, srt string) string {
	if strings.HasPrefix(srt, "(_ BitVec ") {
		w, _ := strconv.Atoi(strings.TrimSuffix(strings.TrimPrefix(srt, "(_ BitVec "), ")"))
		u := uint64(v)
		if w < 64 {
			u &= (1 << uint(w)) - 1
		}
		return fmt.Sprintf("(_ bv%d %d)", u, w)
	}
	if v < 0 {
		if v == -9223372036854775808 {
			return "(- 9223372036854775808)"
		}
		return fmt.Sprintf("(- %d)", -v)
	}
	return fmt.Sprintf("%d", v)
}

func (g *Gen) uintLit(v uint64, srt string) string {
	if strings.HasPrefix(srt, "(_ BitVec ") {
		w, _ := strconv.Atoi(strings.TrimSuffix(strings.TrimPrefix(srt, "(_ BitVec "), ")"))
		if w < 64 {
			v &= (1 << uint(w)) - 1
		}
		return fmt.Sprintf("(_ bv%d %d)", v, w)
	}
	return fmt.Sprintf("%d", v)
}

func (g *Gen) typeTag(t types.Type) int {
	t = types.Unalias(t)
	for i, u := range g.tagTypes {
		if types.Identical(t, u) {
			return i + 1
		}
	}
	g.tagTypes = append(g.tagTypes, t)
	g.tags[types.TypeString(t, nil)] = len(g.tagTypes)
	return len(g.tagTypes)
}

// ---------------------------------------------------------------------------
// Prelude

const prelude = `(declare-sort Str 0)
(declare-fun slen (Str) Int)
(declare-fun at (Str Int) Int)
(declare-fun cat (Str Str) Str)
(declare-fun sub (Str Int Int) Str)
(declare-fun zeros (Int) Str)
(declare-fun supd (Str Int Int) Str)
(declare-fun byte1 (Int) Str)
(declare-fun litid (Str) Int)
(declare-const empty$ Str)
(declare-datatypes ((Slice 0)) (((mk$Slice (sarr Int) (soff Int) (slenS Int) (scap Int)))))
(define-fun nilslice$ () Slice (mk$Slice 0 0 0 0))
(declare-fun dyntype$ (Int) Int)
(declare-fun maplen$ (Int) Int)
`

func (vc *VC) sortedDecls() []string { return vc.decls }

func sortedKeys[V any](m map[string]V) []string {
	ks := make([]string, 0, len(m))
	for k := range m {
		ks = append(ks, k)
	}
	sort.Strings(ks)
	return ks
}

// strAxioms are included in a query only when their trigger symbol occurs in it.
var strAxioms = []struct{ sym, ax string }{
	{"", `(assert (= (slen empty$) 0))`},
	{"slen", `(assert (forall ((s Str)) (! (=> (= (slen s) 0) (= s empty$)) :pattern ((slen s)))))`},
	{"cat", `(assert (forall ((a Str)) (! (= (cat a empty$) a) :pattern ((cat a empty$)))))`},
	{"cat", `(assert (forall ((a Str)) (! (= (cat empty$ a) a) :pattern ((cat empty$ a)))))`},
	{"maplen$", `(assert (forall ((m Int)) (! (>= (maplen$ m) 0) :pattern ((maplen$ m)))))`},
	{"slen", `(assert (forall ((s Str)) (! (>= (slen s) 0) :pattern ((slen s)))))`},
	{"at", `(assert (forall ((s Str) (i Int)) (! (and (<= 0 (at s i)) (<= (at s i) 255)) :pattern ((at s i)))))`},
	{"cat", `(assert (forall ((a Str) (b Str)) (! (= (slen (cat a b)) (+ (slen a) (slen b))) :pattern ((cat a b)))))`},
	{"zeros", `(assert (forall ((n Int)) (! (=> (>= n 0) (= (slen (zeros n)) n)) :pattern ((zeros n)))))`},
	{"sub", `(assert (forall ((s Str) (i Int) (j Int)) (! (=> (and (<= 0 i) (<= i j) (<= j (slen s))) (= (slen (sub s i j)) (- j i))) :pattern ((sub s i j)))))`},
	{"sub", `(assert (forall ((s Str)) (! (= (sub s 0 (slen s)) s) :pattern ((sub s 0 (slen s))))))`},
	{"cat", `(assert (forall ((a Str) (b Str) (i Int)) (! (=> (and (<= 0 i) (< i (+ (slen a) (slen b)))) (= (at (cat a b) i) (ite (< i (slen a)) (at a i) (at b (- i (slen a)))))) :pattern ((at (cat a b) i)))))`},
	{"sub", `(assert (forall ((s Str) (lo Int) (hi Int) (i Int)) (! (=> (and (<= 0 lo) (<= lo hi) (<= hi (slen s)) (<= 0 i) (< i (- hi lo))) (= (at (sub s lo hi) i) (at s (+ lo i)))) :pattern ((at (sub s lo hi) i)))))`},
	{"sub", `(assert (forall ((s Str) (a Int) (b Int) (c Int) (d Int)) (! (=> (and (<= 0 a) (<= a b) (<= b (slen s)) (<= 0 c) (<= c d) (<= d (- b a))) (= (sub (sub s a b) c d) (sub s (+ a c) (+ a d)))) :pattern ((sub (sub s a b) c d)))))`},
	{"supd", `(assert (forall ((s Str) (i Int) (v Int)) (! (= (slen (supd s i v)) (slen s)) :pattern ((supd s i v)))))`},
	{"supd", `(assert (forall ((s Str) (i Int) (v Int) (j Int)) (! (=> (and (<= 0 i) (< i (slen s)) (<= 0 j) (< j (slen s)) (<= 0 v) (<= v 255)) (= (at (supd s i v) j) (ite (= j i) v (at s j)))) :pattern ((at (supd s i v) j)))))`},
	{"zeros", `(assert (forall ((n Int) (i Int)) (! (=> (and (<= 0 i) (< i n)) (= (at (zeros n) i) 0)) :pattern ((at (zeros n) i)))))`},
	{"byte1", `(assert (forall ((v Int)) (! (and (= (slen (byte1 v)) 1) (= (at (byte1 v) 0) (mod v 256))) :pattern ((byte1 v)))))`},
	{"cat", `(assert (forall ((a Str) (b Str)) (! (= (sub (cat a b) 0 (slen a)) a) :pattern ((sub (cat a b) 0 (slen a))))))`},
	{"cat", `(assert (forall ((a Str) (b Str) (c Str)) (! (= (cat (cat a b) c) (cat a (cat b c))) :pattern ((cat (cat a b) c)))))`},
}
