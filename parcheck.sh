#!/bin/bash
# usage: parcheck.sh [-j N] [ids...]  -- runs quick checks in parallel, one summary line each
cd "$(dirname "$0")"
J=3
if [ "$1" = "-j" ]; then J=$2; shift 2; fi
ids=${@:-$(python3 -c "import json;print(' '.join(c['property_id'] for c in json.load(open('MANIFEST.json'))['checks']))")}
one() { p=$1; out=$(./check $p --tier quick 2>&1); rc=$?; echo "$p rc=$rc $(echo "$out" | grep '^govc' | tail -1 | cut -c1-160)"; echo "$out" | grep -E '^VIOLATION|^KNOWN|vacuous|engine error' | cut -c1-260; }
export -f one
echo $ids | tr ' ' '\n' | xargs -P $J -I{} bash -c "one {}"
