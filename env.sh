# sourced by every script: explicit toolchains, no network, never -mod=mod inside /repo
export GO126=/opt/veriftools/go1.26.8/bin
export GO125=/root/go/pkg/mod/golang.org/toolchain@v0.0.1-go1.25.0.linux-amd64/bin
export PATH=$GO126:$PATH
export GOTOOLCHAIN=local GOPROXY=off GOSUMDB=off GOFLAGS=-mod=mod
