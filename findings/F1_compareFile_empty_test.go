package ctlog

import (
	"context"
	"log/slog"
	"os/exec"
	"testing"
	"time"
)

func TestF1EmptyImmutableReupload(t *testing.T) {
	dir := t.TempDir()
	t.Cleanup(func() { exec.Command("chattr", "-R", "-i", dir).Run() })
	b, err := NewLocalBackend(context.Background(), dir, slog.Default())
	if err != nil {
		t.Fatal(err)
	}
	opts := &UploadOptions{Immutable: true}
	done := make(chan error, 3)
	go func() {
		if err := b.Upload(context.Background(), "a/empty", []byte{}, opts); err != nil {
			done <- err
			return
		}
		done <- b.Upload(context.Background(), "a/empty", []byte{}, opts)
		done <- b.Upload(context.Background(), "a/empty", []byte{1}, opts)
	}()
	select {
	case err := <-done:
		if err != nil {
			t.Fatalf("re-upload of identical empty immutable object failed: %v", err)
		}
	case <-time.After(3 * time.Second):
		t.Fatal("second immutable upload of an empty object did not return (compareFile spins)")
	}
	select {
	case err := <-done:
		if err == nil {
			t.Fatal("different bytes over an empty immutable object were accepted")
		}
	case <-time.After(3 * time.Second):
		t.Fatal("hang")
	}
	// non-empty existing file, empty new data must fail, not hang
	if err := b.Upload(context.Background(), "a/one", []byte{7}, opts); err != nil {
		t.Fatal(err)
	}
	go func() { done <- b.Upload(context.Background(), "a/one", []byte{}, opts) }()
	select {
	case err := <-done:
		if err == nil {
			t.Fatal("empty data over non-empty immutable object accepted")
		}
	case <-time.After(3 * time.Second):
		t.Fatal("hang on empty data vs non-empty file")
	}
}
