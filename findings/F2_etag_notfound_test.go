package ctlog

import (
	"context"
	"errors"
	"log/slog"
	"net/http"
	"net/http/httptest"
	"testing"

	"github.com/aws/aws-sdk-go-v2/aws"
	"github.com/aws/aws-sdk-go-v2/credentials"
	"github.com/aws/aws-sdk-go-v2/service/s3"
)

func TestF2ETagFetchNotFound(t *testing.T) {
	srv := httptest.NewServer(http.HandlerFunc(func(w http.ResponseWriter, r *http.Request) {
		w.Header().Set("Content-Type", "application/xml")
		w.WriteHeader(404)
		w.Write([]byte(`<?xml version="1.0" encoding="UTF-8"?><Error><Code>NoSuchKey</Code><Message>The specified key does not exist.</Message></Error>`))
	}))
	defer srv.Close()
	client := s3.New(s3.Options{
		Region:       "us-east-1",
		BaseEndpoint: aws.String(srv.URL),
		UsePathStyle: true,
		Credentials:  credentials.NewStaticCredentialsProvider("a", "b", ""),
		RetryMaxAttempts: 1,
	})
	b := &ETagBackend{client: client, bucket: "bucket", log: slog.Default()}
	_, err := b.Fetch(context.Background(), [32]byte{1})
	if err == nil {
		t.Fatal("expected error")
	}
	if !errors.Is(err, ErrLogNotFound) {
		t.Fatalf("missing log not reported with ErrLogNotFound: %v", err)
	}
}
