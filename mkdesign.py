#!/usr/bin/env python3
# Regenerates section 0 of DESIGN.md (between the ASBUILT markers) from design_asbuilt_head.md plus tables built from
# evidence/*.json, claims.json, selftest/results.txt and seeded/*/meta.json.
import json, glob, os, re, textwrap

V = '/verif'
props = [json.loads(l) for l in open(V + '/properties.jsonl')]
claims = json.load(open(V + '/claims.json'))
out = [open(V + '/design_asbuilt_head.md').read().rstrip('\n'), '']

def short(fn):
    return fn

for p in props:
    pid = p['id']
    c = claims.get(pid)
    evf = f'{V}/evidence/{pid}.json'
    out.append(f"#### {pid} — {p['title']}")
    if not c:
        out.append('Not claimed (see MANIFEST.not_applicable).\n')
        continue
    if os.path.exists(evf):
        e = json.load(open(evf)); cv = e['coverage']
        kinds = {}
        for s in cv.get('samples', []):
            kinds[s['kind']] = kinds.get(s['kind'], 0) + 1
        ks = ', '.join(f"{k} {v}" for k, v in sorted(kinds.items()))
        out.append(f"*Run on the current tree*: {cv['discharged']}/{cv['obligations']} obligations discharged, "
                   f"{cv['vacuity_covers_ok']}/{cv['vacuity_covers']} vacuity covers ok, solver time {cv['solver_time_s']:.0f} s, wall {e['wall_s']:.0f} s "
                   f"({ks}).")
        out.append('*Functions under contract*: ' + ', '.join('`%s`' % f for f in cv['functions_under_contract']) + '.')
    out.append('*What is proved*: ' + c['text'])
    out.append('*Assumed / not covered*: ' + c['note'])
    out.append('')

# must-fail corpus
res = {}
rf = V + '/selftest/results.txt'
if os.path.exists(rf):
    for l in open(rf):
        m = re.match(r'^(CAUGHT|MISSED|ERROR\(\d+\)|PATCH-FAILED)\s+(\S+)\s+prop=(\S+?)(?::| violations=\d+:)?\s*(.*)$', l.strip())
        if not m:
            continue
        st, name, prop, rest = m.groups()
        name = os.path.basename(name.rstrip('/')).replace('.patch', '')
        obls = [o for o in rest.replace('no-failing-input-found', '').split() if '.' in o]
        res[name] = (st, prop, obls)

out.append('### 0.11 Must-fail corpus: which obligation catches which change (generated from selftest/results.txt)')
out.append('')
out.append('Hand-written mutants and canaries (`selftest/mutants/<name>.patch`):')
out.append('')
out.append('| change | property | result | first failing obligation(s) |')
out.append('|---|---|---|---|')
for name in sorted(k for k in res if not re.match(r'^C\d\d[a-f]$', k)):
    st, prop, obls = res[name]
    out.append(f"| {name} | {prop} | {st} | {'; '.join('`%s`' % o for o in obls[:2])} |")
out.append('')
out.append('Independently seeded changes (`seeded/<id>/`), confirmed in a scratch worktree before being kept:')
out.append('')
out.append('| id | what the change does (from the seeding agent\'s summary) | needs, to manifest | confirmed | caught by |')
out.append('|---|---|---|---|---|')
for d in sorted(glob.glob(V + '/seeded/*/')):
    sid = os.path.basename(d.rstrip('/'))
    try:
        m = json.load(open(d + 'meta.json'))
    except Exception:
        continue
    cf = m.get('confirmed', {})
    ok = 'kept' if cf.get('kept') else 'NOT kept: base=%s build=%s demo=%s fails=%s' % (cf.get('demo_on_unchanged_tree'), cf.get('builds_with_change'), cf.get('demo_with_change'), ' '.join(cf.get('existing_tests_failures_not_attributable_to_environment', [])))
    summ = re.sub(r'\s+', ' ', m.get('summary', ''))[:260].replace('|', '/')
    needs = re.sub(r'\s+', ' ', m.get('needs', ''))[:160].replace('|', '/')
    st, prop, obls = res.get(sid, ('not run', '', []))
    out.append(f"| {sid} | {summ}… | {needs}… | {ok} | {st}: {'; '.join('`%s`' % o for o in obls[:2])} |")
out.append('')

# behaviour-preserving refactors (must stay quiet)
rr = V + '/selftest/refactor-results.txt'
if os.path.exists(rr):
    per = {}
    for l in open(rr):
        m = re.match(r'^(QUIET|ALARM\(\d+\))\s+(R\d-\d)\s+prop=(C\d\d)(.*)$', l.strip())
        if m:
            per.setdefault(m.group(2), []).append((m.group(1), m.group(3), m.group(4)))
    out.append('### 0.12 Behaviour-preserving refactors: checks must stay quiet (generated from selftest/refactor-results.txt)')
    out.append('')
    out.append('Four sub-agents (one per group of files, no access to /verif) each wrote six small refactors that keep every observable '
               'behaviour (extract/inline helper, rename locals, early return, merged conditions, equivalent library call, temporaries). '
               '`selftest/refactors.sh` applies each to a scratch copy and runs the checks of the properties whose contracts live in the touched package. '
               'First run: 22 of 24 quiet; the two alarms were both pure renames of local variables that contracts mention '
               '(LoadLog `sth`/`c1`, cleanDir `name`/`t`/`i`). Since then the engine compares each function under contract with its committed '
               'version (`git show HEAD:file`): when the working-tree declaration is an alpha-renaming of it (object-wise, so shadowed variables are kept apart), '
               'the renaming is applied to the contract\'s identifiers, `x__k` ordinals, loop anchors and call filters before binding. '
               'Anything that is not a pure renaming leaves the contract untouched.')
    out.append('')
    out.append('| id | change (agent\'s note) | checks run | result |')
    out.append('|---|---|---|---|')
    for rid in sorted(per):
        note = ''
        try:
            note = re.sub(r'\s+', ' ', open(f'{V}/selftest/refactors/{rid}/note.txt').read())[:230].replace('|', '/')
        except Exception:
            pass
        rs = per[rid]
        bad = [f"{p}: {x.strip()[:80]}" for (st, p, x) in rs if st != 'QUIET']
        out.append(f"| {rid} | {note} | {' '.join(p for (_, p, _) in rs)} | {'all quiet' if not bad else '; '.join(bad)} |")
    out.append('')

text = '\n'.join(out)
d = open(V + '/DESIGN.md').read()
B, E = '<!-- ASBUILT-BEGIN -->', '<!-- ASBUILT-END -->'
if B in d:
    d = d[:d.index(B) + len(B)] + '\n' + text + '\n' + d[d.index(E):]
else:
    i = d.index('## 1. Why contracts reach what the tests cannot')
    d = d[:i] + B + '\n' + text + '\n' + E + '\n\n---------------------------------------------------------------------------\n\n' + d[i:]
open(V + '/DESIGN.md', 'w').write(d)
print('DESIGN.md section 0 regenerated:', len(text.split('\n')), 'lines')
