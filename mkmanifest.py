#!/usr/bin/env python3
# Regenerates MANIFEST.json from claims.json (claimed properties) and na.json (reasons for the rest).
import json, subprocess
props=[json.loads(l) for l in open('/verif/properties.jsonl')]
claims=json.load(open('/verif/claims.json'))
try: na=json.load(open('/verif/na.json'))
except Exception: na={}
commits=subprocess.run(['git','-C','/repo','log','--format=%H %s'],capture_output=True,text=True).stdout.strip().split('\n')
hooks=[c.split()[0] for c in commits if ' verif hook:' in ' '+c.split(' ',1)[1] or c.split(' ',1)[1].startswith('verif hook')]
checks=[]
for p in props:
    c=claims.get(p['id'])
    if not c: continue
    checks.append({
      "property_id":p['id'],
      "quick_cmd":f"./check {p['id']} --tier quick",
      "thorough_cmd":f"./check {p['id']} --tier thorough",
      "evidence_file":f"/verif/evidence/{p['id']}.json",
      "replay_cmd_template":f"./check {p['id']} --replay {{path}}",
      "engine":"govc",
      "level_claimed":{"category":"proof","text":c['text'],"design_ref":c.get('design_ref','DESIGN.md section 8')},
      "level_note":c['note'],
      "technique":c.get('technique',"contract-based deductive verification: weakest-precondition VCs generated over go/ssa from contracts kept in //@ comment files in /repo, discharged by z3/z3-new/cvc5")
    })
m={"version":1,
 "setup_cmd":"./setup.sh",
 "hooks":{"guard":"verif","enable":"contracts are comment-only files contracts_verif.go (//go:build verif) next to the code; govc loads /repo with -tags=verif; no executable code is added","baseline_off_cmd":"cd /repo && go test -vet=off -count=1 -timeout 25m ./...","source_commits":hooks,"add_only":True},
 "engines":[{"name":"govc","path":"/verif/engine","serves_properties":[c['property_id'] for c in checks],"kind_free_text":"contract-based deductive verifier for Go written for this task: VC generation (passive/weakest-precondition style, loop invariants, modular call contracts, ghost state) over go/ssa built from /repo on every run; obligations discharged by z3 4.8.12, z3 5.1.0 and cvc5 1.0 raced per obligation"}],
 "checks":checks,
 "not_applicable":[{"property_id":p['id'],"reason":na.get(p['id'],"check not built yet (engine under construction); planned obligations in DESIGN.md section 8")} for p in props if p['id'] not in claims],
 "notes":"Every check rebuilds SSA from /repo's working tree (go/packages with -tags=verif). Exit 2 = engine/vacuity error. Known findings: /verif/known-findings.json."}
json.dump(m,open('/verif/MANIFEST.json','w'),indent=1)
print("claimed:",[c['property_id'] for c in checks])
