#!/bin/bash
# regression: one line per claimed (or given) property
cd "$(dirname "$0")"
props=${@:-$(python3 -c "import json;print(' '.join(c['property_id'] for c in json.load(open('MANIFEST.json'))['checks']))")}
for p in $props; do ./bin/govc -prop $p 2>&1 | grep "^govc" | cut -c1-170; done
