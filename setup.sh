#!/bin/bash
# Build the engine offline and warm the go build cache used by go/packages.
set -e
cd "$(dirname "$0")"
. ./env.sh
(cd engine && go build -o ../bin/govc . )
# warm export data for /repo's dependencies (read-only with respect to /repo)
(cd /repo && GOFLAGS=-mod=readonly go build -tags verif ./... >/dev/null 2>&1 || true)
echo setup ok
