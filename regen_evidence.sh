#!/bin/bash
# Re-runs every claimed check against /repo and leaves the evidence files to be committed.
cd "$(dirname "$0")"
for p in $(python3 -c "import json;print(' '.join(c['property_id'] for c in json.load(open('MANIFEST.json'))['checks']))"); do
  ./check $p --tier quick >/dev/null 2>&1; echo "$p rc=$?"
done
